//! Serialisable option set + guarded invocation of `solve_ivp`.

use crate::instr::{BudgetExceeded, Instr};
use crate::problems::Meth;
use ivp::methods::Tolerance;
use ivp::prelude::*;
use serde::{Deserialize, Serialize};
use std::panic::{catch_unwind, AssertUnwindSafe};

#[derive(Serialize, Deserialize, Clone, Debug)]
pub enum Tol {
    S(f64),
    V(Vec<f64>),
}

impl Tol {
    pub fn to_ivp(&self) -> Tolerance {
        match self {
            Tol::S(v) => Tolerance::Scalar(*v),
            Tol::V(v) => Tolerance::Vector(v.clone()),
        }
    }
    pub fn at(&self, i: usize) -> f64 {
        match self {
            Tol::S(v) => *v,
            Tol::V(v) => v[i],
        }
    }
    pub fn max(&self) -> f64 {
        match self {
            Tol::S(v) => *v,
            Tol::V(v) => v.iter().cloned().fold(0.0, f64::max),
        }
    }
    pub fn scaled(&self, c: f64) -> Tol {
        match self {
            Tol::S(v) => Tol::S(v * c),
            Tol::V(v) => Tol::V(v.iter().map(|x| x * c).collect()),
        }
    }
    /// fit to dimension n (vectors are truncated / padded with their last value)
    pub fn fit(&self, n: usize) -> Tol {
        match self {
            Tol::S(v) => Tol::S(*v),
            Tol::V(v) => {
                let mut w = v.clone();
                let last = *w.last().unwrap_or(&1e-6);
                w.resize(n, last);
                Tol::V(w)
            }
        }
    }
}

#[derive(Serialize, Deserialize, Clone, Debug)]
pub struct RunOpts {
    pub method: Meth,
    pub rtol: Tol,
    pub atol: Tol,
    pub first_step: Option<f64>,
    pub max_step: Option<f64>,
    pub max_steps: Option<usize>,
    pub t_eval: Option<Vec<f64>>,
    pub dense: bool,
}

impl RunOpts {
    pub fn basic(method: Meth, rtol: f64, atol: f64) -> RunOpts {
        RunOpts { method, rtol: Tol::S(rtol), atol: Tol::S(atol), first_step: None, max_step: None, max_steps: None, t_eval: None, dense: false }
    }
}

pub enum RunResult {
    Ok(Solution),
    Err(String),
    Panic(String),
    Budget,
}

impl RunResult {
    pub fn describe(&self) -> String {
        match self {
            RunResult::Ok(s) => format!("Ok({:?})", s.status),
            RunResult::Err(e) => format!("Err({})", e),
            RunResult::Panic(m) => format!("panic({})", m),
            RunResult::Budget => "budget-exceeded".into(),
        }
    }
}

#[derive(Clone, Debug, Default)]
pub struct Extra {
    pub jac_storage: Option<MatrixStorage>,
    pub mass_storage: Option<MatrixStorage>,
    pub nind1: Option<usize>,
    pub nind2: Option<usize>,
    pub min_step: Option<f64>,
}

pub fn build_options(o: &RunOpts, ex: &Extra) -> Options {
    Options::builder()
        .method(o.method.to_ivp())
        .rtol(o.rtol.to_ivp())
        .atol(o.atol.to_ivp())
        .maybe_first_step(o.first_step)
        .maybe_max_step(o.max_step)
        .maybe_min_step(ex.min_step)
        .maybe_max_steps(o.max_steps)
        .maybe_t_eval(o.t_eval.clone())
        .dense_output(o.dense)
        .jac_storage(ex.jac_storage.clone().unwrap_or(MatrixStorage::Full))
        .mass_storage(ex.mass_storage.clone().unwrap_or(MatrixStorage::Identity))
        .maybe_nind1(ex.nind1)
        .maybe_nind2(ex.nind2)
        .build()
}

pub fn solve_ex(f: &Instr, x0: f64, xend: f64, y0: &[f64], o: &RunOpts, ex: &Extra) -> RunResult {
    let opts = build_options(o, ex);
    let r = catch_unwind(AssertUnwindSafe(|| solve_ivp(f, x0, xend, y0, opts)));
    match r {
        Ok(Ok(s)) => RunResult::Ok(s),
        Ok(Err(e)) => RunResult::Err(format!("{}", e)),
        Err(p) => {
            if p.downcast_ref::<BudgetExceeded>().is_some() {
                RunResult::Budget
            } else {
                RunResult::Panic(crate::util::panic_msg(&p))
            }
        }
    }
}

pub fn solve(f: &Instr, x0: f64, xend: f64, y0: &[f64], o: &RunOpts) -> RunResult {
    solve_ex(f, x0, xend, y0, o, &Extra::default())
}

/// guard for arbitrary closures calling into the crate
pub fn guarded<T>(f: impl FnOnce() -> T) -> Result<T, String> {
    match catch_unwind(AssertUnwindSafe(f)) {
        Ok(v) => Ok(v),
        Err(p) => {
            if p.downcast_ref::<BudgetExceeded>().is_some() {
                Err("budget-exceeded".into())
            } else {
                Err(format!("panic: {}", crate::util::panic_msg(&p)))
            }
        }
    }
}

pub fn status_name(s: Status) -> &'static str {
    match s {
        Status::Success => "Success",
        Status::UserInterrupt => "UserInterrupt",
        Status::NeedLargerNMax => "NeedLargerNMax",
        Status::StepSizeTooSmall => "StepSizeTooSmall",
        Status::ProbablyStiff => "ProbablyStiff",
        Status::SingularMatrix => "SingularMatrix",
        Status::PoorConvergence => "PoorConvergence",
    }
}
