#![allow(dead_code)]
//! Verification harness for Ryan-D-Gast/ivp (library part: shared by the `vf` binary and the fuzz targets)
pub mod engine;
pub mod evgen;
pub mod field;
pub mod gen;
pub mod instr;
pub mod lowlevel;
pub mod problems;
pub mod props;
pub mod pycase;
pub mod run;
pub mod stiff;
pub mod trees;
pub mod util;
pub mod xoutrel;

pub mod bytes;

/// Fuzz entry: decode the bytes into a case of the property (see bytes.rs) and run the property's own
/// oracle.  Returns Some((case json, message)) on a violation that is not a listed known finding.
pub fn fuzz_one(id: &str, data: &[u8]) -> Option<(String, String)> {
    use engine::Outcome;
    fn go<C: serde::Serialize>(case: C, check: &(dyn Fn(&C) -> Outcome + Sync)) -> Option<(String, String)> {
        match engine::eval(check, &case) {
            Outcome::Violation { key, msg } if key.is_empty() || key == "panic" => Some((serde_json::to_string_pretty(&case).unwrap(), msg)),
            _ => None,
        }
    }
    match id {
        "C03" => go(bytes::case_c03(data), &props::c03::check),
        "C04" => go(bytes::case_c04(data), &props::c04::check),
        "C05" => go(bytes::case_c05(data), &props::c05::check),
        "C09" => go(bytes::case_c09(data), &props::c09::check),
        "C16" => go(bytes::case_c16(data), &props::c16::check),
        "C17" => go(bytes::case_c17(data), &props::c17::check),
        _ => None,
    }
}
