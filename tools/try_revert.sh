#!/usr/bin/env bash
# tools/try_revert.sh <fix-commit> <Cxx>...  -- re-introduce a repaired defect (reverse of its fix: commit) and run checks
c="$1"; shift
git -C /repo diff "$c" "$c^" > /tmp/revert-$c.diff
/verif/tools/try_seed.sh /tmp/revert-$c.diff "$@"
rm -f /tmp/revert-$c.diff
