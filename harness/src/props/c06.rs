//! C06 — Dense output is continuous, matches the samples, covers exactly the span.

use crate::engine::*;
use crate::gen::*;
use crate::instr::*;
use crate::lowlevel::*;
use crate::problems::*;
use crate::run::*;
use crate::util::*;
use ivp::error::{Error, InterpolationError};
use proptest::prelude::*;
use serde::{Deserialize, Serialize};
use serde_json::json;

#[derive(Serialize, Deserialize, Clone, Debug)]
pub struct Case {
    pub prob: ProbSpec,
    pub span: Span,
    pub method: Meth,
    pub rtol: Tol,
    pub atol: Tol,
    pub dense: bool,
    pub t_eval: Option<Vec<Place>>,
    pub max_step: Option<f64>,
    pub first_step: Option<f64>,
    pub terminal_at: Option<f64>,
    pub analytic_jac: bool,
    pub zero_length: bool,
    /// query points: fractions of the covered span, and relative overshoots outside it
    pub queries: Vec<f64>,
    pub outside: Vec<f64>,
    /// step budget: a run that ends with NeedLargerNMax still owns the dense output of the steps it took
    #[serde(default)]
    pub max_steps: Option<usize>,
    /// when present the case is a low-level run whose callback answers XOut (dense output on demand); the other fields are unused
    #[serde(default)]
    pub xout: Option<crate::xoutrel::XCase>,
}

fn not_enabled<T>(r: &Result<T, Error>) -> bool {
    matches!(r, Err(Error::Interpolation(InterpolationError::NotEnabled)))
}
fn out_of_range<T>(r: &Result<T, Error>) -> bool {
    matches!(r, Err(Error::Interpolation(InterpolationError::OutOfRange { .. })))
}

pub fn check(c: &Case) -> Outcome {
    if let Some(x) = &c.xout {
        return crate::xoutrel::check(x, crate::xoutrel::Aspect::Ends);
    }
    let sp = &c.span;
    let d = sp.dir();
    let (x0, xend) = if c.zero_length { (sp.x0, sp.x0) } else { (sp.x0, sp.xend) };
    let prob = Prob::new(&c.prob, sp.x0, sp.xend);
    let n = prob.n;
    let y0 = prob.y0();
    let mut evs: Vec<EvSpec> = vec![EvSpec { g: Ev::Const { v: 1.0 }, dir: 0, terminal: None }];
    if let Some(f) = c.terminal_at {
        evs.push(EvSpec { g: Ev::Time { c: sp.x0 + f * (sp.xend - sp.x0) }, dir: 0, terminal: Some(1) });
    }
    let len = sp.len();
    let mk = |t_eval: Option<Vec<f64>>, dense: bool| RunOpts {
        method: c.method,
        rtol: c.rtol.fit(n),
        atol: c.atol.fit(n),
        first_step: match c.method {
            Meth::RK4 => Some(c.first_step.unwrap_or(0.01).clamp(0.004, 0.03) * len * d),
            _ => c.first_step.map(|f| f * len),
        },
        max_step: c.max_step.map(|f| f * len),
        max_steps: c.max_steps,
        t_eval,
        dense,
    };
    // phase 1: the step grid (needed to place t_eval and to know the step ends)
    let mut instr = Instr::new(&prob, &evs);
    instr.dir = d;
    instr.use_jac = c.analytic_jac;
    instr.rec_ev = true;
    let plain = match solve(&instr, x0, xend, &y0, &mk(None, false)) {
        RunResult::Ok(s) => s,
        other => return Outcome::triv(format!("no-solution:{}", other.describe().chars().take(30).collect::<String>())),
    };
    let log = instr.take_log();
    // accepted step ends: strictly monotone prefix of the events() call times
    let mut grid: Vec<f64> = vec![];
    let mut gy: Vec<Vec<f64>> = vec![];
    for (k, t) in log.ev_t.iter().enumerate() {
        if k == 0 || (t - log.ev_t[k - 1]) * d > 0.0 {
            grid.push(*t);
            gy.push(log.ev_y[k].clone());
        } else {
            break;
        }
    }
    let te = c.t_eval.as_ref().map(|p| resolve_places(p, &grid, sp));
    let mut i2 = Instr::new(&prob, &evs);
    i2.dir = d;
    i2.use_jac = c.analytic_jac;
    let sol = match solve(&i2, x0, xend, &y0, &mk(if c.zero_length { te.as_ref().map(|v| vec![x0; v.len().max(1)]) } else { te.clone() }, c.dense)) {
        RunResult::Ok(s) => s,
        other => return Outcome::viol(format!("{}: plain run Ok but the run with dense={} t_eval={} gives {}", c.method.name(), c.dense, te.is_some(), other.describe())),
    };
    let name = format!("{} {}", c.method.name(), status_name(sol.status));
    if std::env::var("VF_DEBUG").is_ok() {
        eprintln!("grid={:?}\nte={:?}\nsol.t={:?}\nsol.y={:?}\nspan={:?}", grid, te, sol.t, sol.y, sol.sol_span());
        for t in &sol.t {
            eprintln!("sol({:e}) = {:?}", t, sol.sol(*t));
        }
    }
    if !c.dense {
        let a = sol.sol(x0);
        let b = sol.sol_many(&[x0]);
        if !not_enabled(&a) || !not_enabled(&b) || sol.sol_span().is_some() {
            return Outcome::viol(format!("{}: dense_output disabled but sol()/sol_many()/sol_span() did not report NotEnabled: {:?} / {:?} / {:?}", name, a.map(|_| "Ok"), b.map(|_| "Ok"), sol.sol_span()));
        }
        return Outcome::pass(format!("{}:disabled", c.method.name()), sol.naccpt >= 3, json!({"naccpt": sol.naccpt}));
    }
    if c.zero_length {
        return match sol.sol(x0) {
            Ok(v) if bits_eq(&v, &y0) => Outcome::pass(format!("{}:zero-length", c.method.name()), true, json!({"n": n})),
            other => Outcome::viol(format!("{}: zero-length run with dense output: sol(x0) = {:?}, expected y0", name, other)),
        };
    }
    if grid.len() < 2 {
        return Outcome::triv("no-accepted-step");
    }
    // slope bound for continuity checks
    let mut lmax: f64 = 0.0;
    let mut dy = vec![0.0; n];
    for (t, y) in grid.iter().zip(&gy) {
        crate::instr::Rhs::f(&prob, *t, y, &mut dy);
        lmax = lmax.max(inf_norm(&dy));
    }
    // a time argument is only known to an ulp: the state moves by |f|*ulp(t) per ulp of time
    // (32 ulps: Radau and BDF report xend itself when they stop within their step-size resolution of it, up to 10 eps |x|
    // = 20 ulps, so the state labelled xend may belong to a time that much earlier -- C03's "xend to rounding")
    let tround = 32.0 * lmax * ulp(x0.abs().max(xend.abs()));
    let (a, b) = match sol.sol_span() {
        Some(s) => s,
        None => return Outcome::viol(format!("{}: dense_output enabled, {} accepted steps, but sol_span() is None", name, grid.len() - 1)),
    };
    let g_last = *grid.last().unwrap();
    if a.to_bits() != x0.to_bits() {
        return Outcome::viol(format!("{}: dense span starts at {:e}, not x0={:e}", name, a, x0));
    }
    // (the span end is xold + h of the last step: its rounding is relative to the larger end of that step, which matters
    // when the run ends near t = 0)
    let g_prev = grid[grid.len() - 2];
    // Radau and BDF declare xend reached when the remaining distance is below their step-size resolution (up to 10 eps |x|,
    // 20 ulps) and report xend itself; the stored segment still ends at xold + h: 32 ulps as in C03's "xend to rounding"
    if (b - g_last).abs() > 32.0 * ulp(g_last.abs().max(b.abs()).max(g_prev.abs())) {
        return Outcome::viol(format!("{}: dense span ends at {:e} but the last accepted step ended at {:e}", name, b, g_last));
    }
    // every accepted step end is reproduced; continuity across the boundary
    for (k, (t, y)) in grid.iter().zip(&gy).enumerate() {
        let tol = 1e-10 * (1.0 + inf_norm(y)) + tround;
        match sol.sol(*t) {
            Ok(v) => {
                if max_abs_diff(&v, y) > tol {
                    return Outcome::viol(format!("{}: sol(t_{}={:e}) differs from the state at that accepted step by {:e} (tol {:e})", name, k, t, max_abs_diff(&v, y), tol));
                }
            }
            Err(e) => return Outcome::viol(format!("{}: sol(t_{}={:e}) failed inside the covered span [{:e},{:e}]: {}", name, k, t, a, b, e)),
        }
        if k + 1 < grid.len() && k > 0 {
            let delta = (2.5e-12f64).max(8.0 * ulp(*t));
            let step = (grid[k + 1] - t).abs();
            if step > 4.0 * delta {
                let tq = t + d * delta;
                match sol.sol(tq) {
                    Ok(v) => {
                        let lim = 2.0 * lmax * delta + tol;
                        if max_abs_diff(&v, y) > lim {
                            return Outcome::viol(format!("{}: dense output jumps across the step boundary t_{}={:e}: |sol(t+{:e}) - y| = {:e} > {:e}", name, k, t, delta, max_abs_diff(&v, y), lim));
                        }
                    }
                    Err(e) => return Outcome::viol(format!("{}: sol({:e}) just after a step boundary failed: {}", name, tq, e)),
                }
            }
        }
    }
    // every reported sample is reproduced (incl. the last reported time and the terminal event point)
    for (t, y) in sol.t.iter().zip(&sol.y) {
        let tol = 1e-10 * (1.0 + inf_norm(y)) + 2.0 * lmax * 2e-12 + tround;
        match sol.sol(*t) {
            Ok(v) => {
                if max_abs_diff(&v, y) > tol {
                    return Outcome::viol(format!("{}: sol({:e}) differs from the reported sample there by {:e}", name, t, max_abs_diff(&v, y)));
                }
            }
            Err(e) => return Outcome::viol(format!("{}: sol() failed at the reported sample time {:e} (span [{:e},{:e}]): {}", name, t, a, b, e)),
        }
    }
    // generated queries inside: Ok, and sol_many == map sol
    let qs: Vec<f64> = c.queries.iter().map(|f| a + f * (b - a)).map(|t| if d > 0.0 { t.max(a).min(b) } else { t.min(a).max(b) }).collect();
    let many = sol.sol_many(&qs);
    match &many {
        Ok(vs) => {
            for (t, v) in qs.iter().zip(vs) {
                match sol.sol(*t) {
                    Ok(w) => {
                        if !bits_eq(&w, v) {
                            return Outcome::viol(format!("{}: sol_many and sol disagree at {:e}", name, t));
                        }
                        if v.len() != n || !all_finite(v) {
                            return Outcome::viol(format!("{}: sol({:e}) returned {:?}", name, t, v));
                        }
                    }
                    Err(e) => return Outcome::viol(format!("{}: sol({:e}) failed inside the span: {}", name, t, e)),
                }
            }
        }
        Err(e) => return Outcome::viol(format!("{}: sol_many failed for points inside the covered span [{:e},{:e}]: {}", name, a, b, e)),
    }
    // clearly outside: OutOfRange
    for o in &c.outside {
        for side in [-1.0, 1.0] {
            let edge = if side < 0.0 { a.min(b) } else { a.max(b) };
            let t = edge + side * (1.01e-9 + 256.0 * ulp(edge.abs()) + o * len);
            let r1 = sol.sol(t);
            let r2 = sol.sol_many(&[qs.first().copied().unwrap_or(a), t]);
            if !out_of_range(&r1) || !out_of_range(&r2) {
                return Outcome::viol(format!("{}: t={:e} lies clearly outside the covered span [{:e},{:e}] but sol/sol_many returned {:?} / {:?}", name, t, a, b, r1.map(|_| "Ok"), r2.map(|_| "Ok")));
            }
        }
    }
    let class = format!("{}:{}{}", c.method.name(), status_name(sol.status), if te.is_some() { ":t_eval" } else { "" });
    Outcome::pass(class, grid.len() >= 4, json!({"segments": grid.len() - 1, "nrejct": sol.nrejct, "queries": qs.len()}))
}

/// mildly stiff linear problems (rates up to 1e4) to force BDF order/step changes and Radau rejections
fn stiffish_spec(nmax: usize) -> BoxedStrategy<ProbSpec> {
    (warp(0.5, 4.0), proptest::collection::vec((fr(0.0, 4.0), fr(0.2, 2.0)), 1..=nmax), mix(nmax))
        .prop_map(|(warp, v, mix)| ProbSpec { blocks: v.into_iter().map(|(e, u0)| Block::Real { lam: -(10f64.powf(e)), u0 }).collect(), warp, mix, mag2: 0 })
        .boxed()
}

pub fn strategy() -> BoxedStrategy<Case> {
    let prob = prop_oneof![3 => prob_spec(5, 0.5, 8.0), 1 => stiffish_spec(4)];
    (
        prob,
        prop_oneof![12 => span_mid().boxed(), 1 => span_tiny().boxed(), 1 => span_far().boxed()],
        any_method(),
        tols(5, 3.0, 9.0),
        (proptest::bool::weighted(0.85), proptest::option::weighted(0.3, places(10)), proptest::option::weighted(0.2, log10(-2.0, 0.0)), proptest::option::weighted(0.2, log10(-3.0, -0.5))),
        proptest::option::weighted(0.2, fr(0.05, 0.95)),
        any::<bool>(),
        (0u8..30, proptest::option::weighted(0.15, 3usize..60)),
        proptest::collection::vec(prop_oneof![6 => fr(0.0, 1.0), 1 => Just(0.0), 1 => Just(1.0)], 1..12),
        (proptest::collection::vec(log10(-9.0, 0.5), 1..4), proptest::option::weighted(0.12, crate::xoutrel::strategy())),
    )
        .prop_map(|(prob, span, method, (rtol, atol), (dense, t_eval, max_step, first_step), terminal_at, analytic_jac, (z, max_steps), queries, (outside, xout))| {
            // far from the origin the rounding of t makes a time-dependent right-hand side noisy: autonomous problems there
            let mut prob = prob;
            if span.x0.abs() > 1e4 {
                prob.warp.k = 0;
            }
            let stiff = prob.blocks.iter().any(|b| matches!(b, Block::Real { lam, .. } if *lam < -20.0));
            let method = if stiff && !method.implicit() { if method == Meth::RK4 || method == Meth::RK23 { Meth::BDF } else { Meth::RADAU } } else { method };
            Case { prob, span, method, rtol, atol, dense, t_eval, max_step, first_step, terminal_at, analytic_jac, zero_length: z == 0, queries, outside, max_steps, xout }
        })
        .boxed()
}

pub fn run(ctx: &Ctx, known: &[Known]) -> Report {
    let cases = match ctx.tier {
        Tier::Quick => 40_000,
        Tier::Thorough => 1_500_000,
    };
    let stats = run_generated(ctx, "C06", "gen", &strategy, &check, cases, known);
    Report {
        id: "C06".into(),
        rule: "cases = closed-form problems (n<=5) and mildly stiff linear ones (rates to 1e4, Radau/BDF) x spans x six methods x tolerances x dense on/off x optional grid-relative t_eval, max_step, first_step, max_steps (a run ending with NeedLargerNMax keeps the dense output of the steps it took), terminal event, zero-length run (with t_eval = [x0,..] when t_eval is requested), one span in fourteen at |x0| = 1e5..1e12 (autonomous problems there). The accepted-step grid and states are observed through one events() call per step; oracle: sol_span = [x0, last step end], sol(step end) = state, continuity just after every interior boundary, sol(reported sample) = sample, sol/sol_many Ok and equal for generated interior points, OutOfRange for points outside by more than 1e-9 + 256 ulp(t), NotEnabled when disabled. The per-step interpolant handed to SolOut callbacks: one case in eight is a low-level run of any of the six solvers with dense_output default/true/false whose callback answers ControlFlag::XOut at generated callbacks (or prints equidistantly, announcing each next output point): every interpolant handed over must reproduce both end states of its step (and C19 checks the same on every callback of every history). Non-trivial = at least 3 accepted steps. Distinct = distinct canonical JSON.".into(),
        assumptions: vec![
            "end-point agreement to 1e-10*(1+|y|) + 8*max|f|*ulp(t) (a time is only known to an ulp); continuity probe at t + max(2.5e-12, 8 ulp) with bound 2*max|f|*delta".into(),
            "'clearly outside' = farther than 1e-9 + 256 ulp(t) from the covered span (the crate's own slack is an absolute 1e-12)".into(),
        ],
        min_nontrivial_frac: 0.5,
        stats,
        exhaustive: false,
    }
}
