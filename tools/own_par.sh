#!/usr/bin/env bash
# tools/own_par.sh <workers> <seed-dir-name>...   -- run each seeded change against its own property's quick check (and any
# extra checks named in OWN_EXTRA) on private copies; prints one line per seed.  VERIF_SEED / VERIF_SCALE are passed through.
W="$1"; shift
seeds=("$@")
worker() {
  k="$1"; root="/tmp/own-$k"
  /verif/tools/private_copy.sh "$root" >/dev/null
  i=0
  for s in "${seeds[@]}"; do
    if [ $(( i % W )) -eq "$k" ]; then
      id="${s%%-*}"
      git -C "$root/repo" checkout -q -- . ; git -C "$root/repo" apply "/verif/seeded/$s/patch.diff" || { echo "$s APPLYFAIL"; i=$((i+1)); continue; }
      for c in $id ${OWN_EXTRA:-}; do
        out=$( cd "$root/verif" && VERIF_REPO="$root/repo" ./check "$c" --tier quick 2>&1 ); rc=$?
        echo "$s $c rc=$rc :: $(echo "$out" | grep -E 'oracle:|INCONCL|BUILD|GENERATOR' | head -1 | cut -c1-230)"
      done
      git -C "$root/repo" checkout -q -- .
    fi
    i=$((i+1))
  done
  git -C /repo worktree remove --force "$root/repo" 2>/dev/null; rm -rf "$root"
}
for k in $(seq 0 $((W-1))); do worker "$k" & done
wait
git -C /repo worktree prune
