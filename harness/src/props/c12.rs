//! C12 — Output options do not perturb the integration.

use crate::engine::*;
use crate::gen::*;
use crate::instr::*;
use crate::problems::*;
use crate::run::*;
use crate::util::*;
use ivp::prelude::Solution;
use proptest::prelude::*;
use serde::{Deserialize, Serialize};
use serde_json::json;

#[derive(Serialize, Deserialize, Clone, Debug)]
pub struct Case {
    pub prob: ProbSpec,
    pub span: Span,
    pub method: Meth,
    pub rtol: Tol,
    pub atol: Tol,
    pub analytic_jac: bool,
    pub t_eval: Vec<Place>,
    pub events: Vec<EvSpec>,
    pub max_step: Option<f64>,
    pub max_steps: Option<usize>,
    /// roots of additional non-terminal time events t - c, placed on the plain run's step grid (on a step
    /// end exactly: the event function is then exactly zero at an accepted step; beside one; mid-step)
    #[serde(default)]
    pub ev_places: Vec<Place>,
    /// first_step as a fraction of the span (the output handler then reports the first interval through its own
    /// interpolation path in the runs without t_eval, and not in those with it)
    #[serde(default)]
    pub first_step: Option<f64>,
    /// long run: at least this many steps (max_step = span/N, RK4: first_step = span/N), no step budget given;
    /// only the option sets containing dense_output are compared with the plain run
    #[serde(default)]
    pub long_run: Option<u32>,
    /// this many additional, equally spaced requested times (long t_eval lists: more points than RK4's default 100 steps)
    #[serde(default)]
    pub te_extra: u16,
}

struct One {
    sol: Solution,
    hash: u64,
    ode_calls: u64,
}

fn one(c: &Case, prob: &Prob, evs: &[EvSpec], t_eval: Option<Vec<f64>>, dense: bool) -> Result<One, String> {
    let sp = &c.span;
    let n = prob.n;
    let mut instr = Instr::new(prob, evs);
    instr.dir = sp.dir();
    instr.use_jac = c.analytic_jac;
    instr.hash_calls = true;
    if c.long_run.is_some() {
        instr.budget = 40_000_000;
    }
    let opts = RunOpts {
        method: c.method,
        rtol: c.rtol.fit(n),
        atol: c.atol.fit(n),
        first_step: match (c.method, c.long_run) {
            (Meth::RK4, Some(nl)) => Some(sp.len() / nl as f64 * sp.dir()),
            (Meth::RK4, None) => None,
            _ => c.first_step.map(|f| f * sp.len() * sp.dir()),
        },
        max_step: match c.long_run {
            Some(nl) => Some(sp.len() / nl as f64),
            None => c.max_step.map(|f| f * sp.len()),
        },
        max_steps: if c.long_run.is_some() { None } else { c.max_steps },
        t_eval,
        dense,
    };
    match solve(&instr, sp.x0, sp.xend, &prob.y0(), &opts) {
        RunResult::Ok(s) => {
            let l = instr.take_log();
            Ok(One { sol: s, hash: l.call_hash, ode_calls: l.ode_calls + l.ode_calls_in_jac })
        }
        other => Err(other.describe()),
    }
}

fn counters(s: &Solution) -> (usize, usize, usize, usize, usize, usize, &'static str) {
    (s.nfev, s.njev, s.nlu, s.nstep, s.naccpt, s.nrejct, status_name(s.status))
}

pub fn check(c: &Case) -> Outcome {
    let sp = &c.span;
    let prob = Prob::new(&c.prob, sp.x0, sp.xend);
    let n = prob.n;
    let mut events = c.events.clone();
    crate::props::c03::fix_events(&mut events, n);
    let evs = resolve_events(&events, sp);
    let none: Vec<EvSpec> = vec![];
    let plain = match one(c, &prob, &none, None, false) {
        Ok(o) => o,
        Err(e) => return Outcome::triv(format!("plain-run:{}", e.chars().take(30).collect::<String>())),
    };
    let p = &plain.sol;
    // requested times are placed relative to the plain run's own step grid
    let mut te = resolve_places(&c.t_eval, &p.t, sp);
    if c.te_extra > 0 {
        let m = c.te_extra as f64;
        te.extend((0..c.te_extra).map(|i| sp.x0 + (i as f64 + 0.5) / m * (sp.xend - sp.x0)));
        let d = sp.dir();
        te.sort_by(|a, b| (a * d).partial_cmp(&(b * d)).unwrap());
    }
    let mut evs = evs;
    for (k, t) in resolve_places(&c.ev_places, &p.t, sp).into_iter().enumerate() {
        evs.push(EvSpec { g: Ev::Time { c: t }, dir: (k % 3) as i8 - 1, terminal: None });
    }
    let mut subsets_checked = 0;
    for mask in 0u8..9 {
        // mask 8 = repeat of the plain call
        let (use_te, use_dense, use_ev) = if mask == 8 { (false, false, false) } else { (mask & 1 != 0, mask & 2 != 0, mask & 4 != 0) };
        if mask == 0 {
            continue;
        }
        if use_ev && evs.is_empty() {
            continue;
        }
        if c.long_run.is_some() && !(mask == 2 || mask == 3) {
            continue;
        }
        let o = match one(c, &prob, if use_ev { &evs } else { &none }, if use_te { Some(te.clone()) } else { None }, use_dense) {
            Ok(o) => o,
            Err(e) => return Outcome::viol(format!("{}: plain run returned Ok({}) but with options t_eval={} dense={} events={} the call gave {}", c.method.name(), status_name(p.status), use_te, use_dense, use_ev, e)),
        };
        subsets_checked += 1;
        let tag = format!("{} options(t_eval={}, dense={}, events={}{})", c.method.name(), use_te, use_dense, use_ev, if mask == 8 { ", repeat" } else { "" });
        let s = &o.sol;
        if counters(s) != counters(p) {
            return Outcome::viol(format!("{}: statistics differ from the plain run: {:?} vs {:?}", tag, counters(s), counters(p)));
        }
        if o.hash != plain.hash || o.ode_calls != plain.ode_calls {
            return Outcome::viol(format!("{}: the sequence of right-hand-side evaluations (times and states) differs from the plain run ({} vs {} calls)", tag, o.ode_calls, plain.ode_calls));
        }
        if !use_te {
            if !bits_eq(&s.t, &p.t) || !bits_eq2(&s.y, &p.y) {
                return Outcome::viol(format!("{}: accepted-step samples differ from the plain run (lengths {} vs {})", tag, s.t.len(), p.t.len()));
            }
        }
        if use_dense && p.naccpt > 0 && p.t.len() > 1 {
            let (a, b) = match s.sol_span() {
                Some(x) => x,
                None => return Outcome::viol(format!("{}: no dense span", tag)),
            };
            let last = *p.t.last().unwrap();
            if a.to_bits() != sp.x0.to_bits() || (b - last).abs() > 1e-12 + tau(sp.x0, sp.xend, last) {
                return Outcome::viol(format!("{}: dense span ({:e},{:e}) does not match the plain run's [{:e},{:e}]", tag, a, b, sp.x0, last));
            }
            // (a long run is probed at about fifty of its samples: each sol() call scans the segments)
            let stride = if c.long_run.is_some() { p.t.len() / 50 + 1 } else { 1 };
            for (ti, yi) in p.t.iter().zip(&p.y).step_by(stride) {
                match s.sol(*ti) {
                    Ok(v) => {
                        // a time is only known to an ulp: theta = (t - xold)/h is 1 only to ulp(t)/h, and the state moves
                        // by |f| per unit of time (a run approaching a pole has |f| ulp(t) far above 1e-10 |y|)
                        let mut fy = vec![0.0; yi.len()];
                        crate::instr::Rhs::f(&prob, *ti, yi, &mut fy);
                        let tol = 1e-10 * (1.0 + inf_norm(yi)) + 8.0 * inf_norm(&fy) * ulp(ti.abs());
                        if max_abs_diff(&v, yi) > tol {
                            return Outcome::viol(format!("{}: sol({:e}) differs from the plain run's state there by {:e}", tag, ti, max_abs_diff(&v, yi)));
                        }
                    }
                    Err(e) => return Outcome::viol(format!("{}: sol({:e}) at an accepted step of the plain run failed: {}", tag, ti, e)),
                }
            }
        }
        if mask == 8 {
            if !bits_eq(&s.t, &p.t) || !bits_eq2(&s.y, &p.y) {
                return Outcome::viol(format!("{}: repeated identical call gave different samples", tag));
            }
        }
    }
    // repeatability of a fully-optioned call
    if !evs.is_empty() && c.long_run.is_none() {
        let a = one(c, &prob, &evs, Some(te.clone()), true);
        let b = one(c, &prob, &evs, Some(te.clone()), true);
        if let (Ok(a), Ok(b)) = (a, b) {
            let same = bits_eq(&a.sol.t, &b.sol.t)
                && bits_eq2(&a.sol.y, &b.sol.y)
                && a.sol.t_events.len() == b.sol.t_events.len()
                && a.sol.t_events.iter().zip(&b.sol.t_events).all(|(x, y)| bits_eq(x, y))
                && a.sol.y_events.iter().zip(&b.sol.y_events).all(|(x, y)| bits_eq2(x, y));
            if !same {
                return Outcome::viol(format!("{}: two identical calls with all options gave different results", c.method.name()));
            }
            // ... and so does the same call made on a thread that has never called the library before (no state may
            // survive from one call to the next, e.g. in thread-local scratch storage)
            let fresh = std::thread::scope(|sc| sc.spawn(|| one(c, &prob, &evs, Some(te.clone()), true).map(|o| (o.sol.t, o.sol.y, o.sol.t_events, o.sol.y_events, o.hash))).join());
            match fresh {
                Ok(Ok((t, y, tev, yev, hash))) => {
                    let same = bits_eq(&a.sol.t, &t)
                        && bits_eq2(&a.sol.y, &y)
                        && hash == a.hash
                        && a.sol.t_events.len() == tev.len()
                        && a.sol.t_events.iter().zip(&tev).all(|(x, y)| bits_eq(x, y))
                        && a.sol.y_events.iter().zip(&yev).all(|(x, y)| bits_eq2(x, y));
                    if !same {
                        return Outcome::viol(format!("{}: the call with all options gives different results on a fresh thread than on a thread that has made calls before (events {:?} vs {:?})", c.method.name(), tev.iter().map(|v| v.len()).collect::<Vec<_>>(), a.sol.t_events.iter().map(|v| v.len()).collect::<Vec<_>>()));
                    }
                }
                Ok(Err(e)) => return Outcome::viol(format!("{}: the call with all options fails on a fresh thread: {}", c.method.name(), e)),
                Err(_) => return Outcome::viol(format!("{}: the call with all options panics on a fresh thread", c.method.name())),
            }
        }
    }
    let nontrivial = (p.nrejct > 0 || p.naccpt >= 10) && subsets_checked >= if c.long_run.is_some() { 2 } else { 3 };
    Outcome::pass(format!("{}:{}{}", c.method.name(), status_name(p.status), if c.long_run.is_some() { ":long-run" } else { "" }), nontrivial, json!({"naccpt": p.naccpt, "nrejct": p.nrejct, "option_sets": subsets_checked, "t_eval_points": te.len(), "events": evs.len()}))
}

pub fn strategy() -> BoxedStrategy<Case> {
    (
        prob_spec(6, 0.5, 10.0),
        span_mid(),
        any_method(),
        tols(6, 3.0, 9.0),
        any::<bool>(),
        places(15),
        proptest::collection::vec(event_spec(6, false), 0..=3),
        proptest::option::weighted(0.2, fr(0.02, 0.5)),
        proptest::option::weighted(0.1, 3usize..60),
        (prop_oneof![1 => Just(vec![]).boxed(), 1 => places(3).boxed()], proptest::option::weighted(0.3, log10(-3.0, -0.5)), proptest::option::weighted(0.001, 100_001u32..125_000), prop_oneof![14 => Just(0u16), 1 => 90u16..400]),
    )
        .prop_map(|(mut prob, span, method, (rtol, atol), analytic_jac, t_eval, events, max_step, max_steps, (ev_places, first_step, long_run, te_extra))| {
            if long_run.is_some() {
                // keep the 100 000-step runs cheap: at most three components
                let mut d = 0;
                prob.blocks.retain(|b| { d += b.dim(); d <= 3 });
                if prob.blocks.is_empty() {
                    prob.blocks.push(Block::Real { lam: -0.5, u0: 1.0 });
                }
            }
            Case { prob, span, method, rtol, atol, analytic_jac, t_eval, events, max_step, max_steps, ev_places, first_step, long_run, te_extra: if long_run.is_some() { 0 } else { te_extra } }
        })
        .boxed()
}

pub fn run(ctx: &Ctx, known: &[Known]) -> Report {
    let cases = match ctx.tier {
        Tier::Quick => 20_000,
        Tier::Thorough => 400_000,
    };
    let stats = run_generated(ctx, "C12", "gen", &strategy, &check, cases, known);
    Report {
        id: "C12".into(),
        rule: "cases = closed-form problems (n<=6) x spans x six methods x tolerances x analytic/FD Jacobian x generated t_eval and 0..3 non-terminal event functions x optional max_step/max_steps; each case runs the plain call, the 7 non-empty subsets of {t_eval, dense_output, events} and a repeat, and compares statistics, samples, dense output and a hash of every (t,y) argument passed to the right-hand side. One case in fifteen requests 90..400 additional equally spaced times (more than RK4's default 100 steps); the fully-optioned call is repeated on the same thread and on a thread that has never called the library. One case in a thousand is a long run (max_step = span/N with N > 100 000, no step budget; the option sets with dense_output are compared). Non-trivial = (>=1 rejected step or >=10 accepted steps) and at least 3 option sets compared. Distinct = distinct canonical JSON.".into(),
        assumptions: vec!["bit-identity of f64 values; dense span end compared with the plain run's last time to 1e-12 + 4 ulp".into()],
        min_nontrivial_frac: 0.4,
        stats,
        exhaustive: false,
    }
}
