//! C15 — Mass matrices, DAEs and Jacobian sources/storages are interchangeable.

use crate::engine::*;
use crate::gen::*;
use crate::instr::*;
use crate::lowlevel::*;
use crate::problems::*;
use crate::run::*;
use crate::util::*;
use ivp::prelude::{Matrix, MatrixStorage, Solution, Status};
use proptest::prelude::*;
use serde::{Deserialize, Serialize};
use serde_json::json;

#[derive(Serialize, Deserialize, Clone, Debug)]
pub enum Kind {
    /// M y' = M g(t,y) with a nonsingular (diagonally dominant) M of half-bandwidths (ml, mu); ml=mu=n => dense
    MassOde { off: Vec<f64>, ml: usize, mu: usize },
    /// index-1 DAE: y1' = g(t,y1) + B (y2 - psi(y1)), 0 = psi(y1) - y2
    Dae { n2: usize, b: Vec<f64>, cs: Vec<f64>, ds: Vec<f64> },
    /// no mass override: every mass storage must give y' = f
    NoMass { ml: usize, mu: usize },
    /// banded right-hand side: Full vs Banded Jacobian storage (Radau and BDF)
    JacStorage { n: usize, ml: usize, mu: usize, coef: Vec<f64>, diag: Vec<f64> },
    /// identity mass written into Identity / Full / Banded{0,0} storage
    IdentityMass,
    /// analytic vs finite-difference Jacobian
    JacSource,
    /// the default finite-difference Jacobian itself, entry by entry against the analytic one, at a state on
    /// the solution whose components have magnitudes 2^k_i (k_i = 0..10: the increment rule max(|y_j|, 1) then
    /// differs from column to column), and the two runs it feeds
    FdJacobian { mags: Vec<u8>, at: f64 },
}

#[derive(Serialize, Deserialize, Clone, Debug)]
pub struct Case {
    pub prob: ProbSpec,
    pub span: Span,
    pub method: Meth,
    pub rtol: f64,
    pub atol_rel: f64,
    pub kind: Kind,
}

/// f = M * g(t, y)
struct MassRhs<'a> {
    inner: &'a Prob,
    m: &'a [f64],
}
impl<'a> Rhs for MassRhs<'a> {
    fn dim(&self) -> usize {
        self.inner.n
    }
    fn f(&self, t: f64, y: &[f64], dy: &mut [f64]) {
        let n = self.inner.n;
        let mut g = vec![0.0; n];
        self.inner.f(t, y, &mut g);
        for i in 0..n {
            let mut acc = 0.0;
            for j in 0..n {
                acc += self.m[i * n + j] * g[j];
            }
            dy[i] = acc;
        }
    }
    fn has_jac(&self) -> bool {
        true
    }
    fn jac_dense(&self, t: f64, y: &[f64], j: &mut [f64]) {
        let n = self.inner.n;
        let mut jg = vec![0.0; n * n];
        self.inner.jac_dense(t, y, &mut jg);
        for i in 0..n {
            for c in 0..n {
                let mut acc = 0.0;
                for k in 0..n {
                    acc += self.m[i * n + k] * jg[k * n + c];
                }
                j[i * n + c] = acc;
            }
        }
    }
}

/// index-1 DAE built on a closed-form ODE
struct DaeRhs<'a> {
    inner: &'a Prob,
    n2: usize,
    b: &'a [f64],
    cs: &'a [f64],
    ds: &'a [f64],
}
impl<'a> DaeRhs<'a> {
    fn psi(&self, k: usize, y1: &[f64]) -> f64 {
        let n1 = self.inner.n;
        (self.cs[k] * y1[k % n1] + self.ds[k]).sin()
    }
}
impl<'a> Rhs for DaeRhs<'a> {
    fn dim(&self) -> usize {
        self.inner.n + self.n2
    }
    fn f(&self, t: f64, y: &[f64], dy: &mut [f64]) {
        let n1 = self.inner.n;
        self.inner.f(t, &y[..n1], &mut dy[..n1]);
        for k in 0..self.n2 {
            let r = y[n1 + k] - self.psi(k, &y[..n1]);
            for i in 0..n1 {
                dy[i] += self.b[(i * self.n2 + k) % self.b.len()] * r;
            }
            dy[n1 + k] = -r;
        }
    }
    fn has_jac(&self) -> bool {
        true
    }
    fn jac_dense(&self, t: f64, y: &[f64], j: &mut [f64]) {
        let n1 = self.inner.n;
        let n = n1 + self.n2;
        for v in j.iter_mut() {
            *v = 0.0;
        }
        let mut jg = vec![0.0; n1 * n1];
        self.inner.jac_dense(t, &y[..n1], &mut jg);
        for i in 0..n1 {
            for c in 0..n1 {
                j[i * n + c] = jg[i * n1 + c];
            }
        }
        for k in 0..self.n2 {
            let q = k % n1;
            let dpsi = self.cs[k] * (self.cs[k] * y[q] + self.ds[k]).cos();
            for i in 0..n1 {
                let bik = self.b[(i * self.n2 + k) % self.b.len()];
                j[i * n + n1 + k] += bik;
                j[i * n + q] -= bik * dpsi;
            }
            j[(n1 + k) * n + n1 + k] = -1.0;
            j[(n1 + k) * n + q] = dpsi;
        }
    }
}

/// banded nonlinear system (no closed form; used for bit-identity of storages)
struct BandRhs {
    n: usize,
    ml: usize,
    mu: usize,
    coef: Vec<f64>,
    diag: Vec<f64>,
}
impl BandRhs {
    fn c(&self, i: usize, j: usize) -> f64 {
        self.coef[(i * self.n + j) % self.coef.len()]
    }
    fn inband(&self, i: usize, j: usize) -> bool {
        (i as isize - j as isize) <= self.ml as isize && (j as isize - i as isize) <= self.mu as isize
    }
}
impl Rhs for BandRhs {
    fn dim(&self) -> usize {
        self.n
    }
    fn f(&self, t: f64, y: &[f64], dy: &mut [f64]) {
        for i in 0..self.n {
            let mut acc = -self.diag[i % self.diag.len()] * y[i] + 0.3 * (t + i as f64).sin();
            for j in 0..self.n {
                if j != i && self.inband(i, j) {
                    acc += self.c(i, j) * y[j].tanh();
                }
            }
            dy[i] = acc;
        }
    }
    fn has_jac(&self) -> bool {
        true
    }
    fn jac_dense(&self, _t: f64, y: &[f64], j: &mut [f64]) {
        let n = self.n;
        for v in j.iter_mut() {
            *v = 0.0;
        }
        for i in 0..n {
            j[i * n + i] = -self.diag[i % self.diag.len()];
            for q in 0..n {
                if q != i && self.inband(i, q) {
                    let th = y[q].tanh();
                    j[i * n + q] = self.c(i, q) * (1.0 - th * th);
                }
            }
        }
    }
}

fn solve_with(rhs: &dyn Rhs, c: &Case, y0: &[f64], analytic: bool, band: Option<(usize, usize)>, mass: Option<&Matrix>, ex: &Extra) -> Result<Solution, String> {
    let none: Vec<EvSpec> = vec![];
    let mut instr = Instr::new(rhs, &none);
    instr.dir = c.span.dir();
    instr.use_jac = analytic;
    instr.jac_band = band;
    instr.mass = mass;
    instr.budget = 300_000;
    let o = RunOpts::basic(c.method, c.rtol, c.rtol * c.atol_rel);
    match solve_ex(&instr, c.span.x0, c.span.xend, y0, &o, ex) {
        RunResult::Ok(s) => Ok(s),
        other => Err(other.describe()),
    }
}

fn same(a: &Solution, b: &Solution) -> bool {
    a.status == b.status && bits_eq(&a.t, &b.t) && bits_eq2(&a.y, &b.y) && (a.nfev, a.njev, a.nlu, a.nstep, a.naccpt, a.nrejct) == (b.nfev, b.njev, b.nlu, b.nstep, b.naccpt, b.nrejct)
}

fn acc_bound(prob: &Prob, s: &Solution, c: &Case, extra_cond: f64) -> f64 {
    let ymax = s.y.iter().fold(0.0f64, |m, y| m.max(inf_norm(y)));
    let nacc = s.naccpt.max(1) as f64;
    crate::props::c01::C_BOUND * prob.kappa() * extra_cond * nacc * (c.rtol * c.atol_rel + c.rtol * ymax) + 64.0 * f64::EPSILON * (1.0 + ymax) * nacc.sqrt() * extra_cond
}

pub fn check(c: &Case) -> Outcome {
    let sp = &c.span;
    let prob = Prob::new(&c.prob, sp.x0, sp.xend);
    let n = prob.n;
    let y0 = prob.y0();
    let name = c.method.name();
    match &c.kind {
        Kind::MassOde { off, ml, mu } => {
            // M = I + off-diagonal entries scaled so that rows stay strictly diagonally dominant
            let (ml, mu) = ((*ml).min(n.saturating_sub(1)), (*mu).min(n.saturating_sub(1)));
            let mut m = vec![0.0; n * n];
            for i in 0..n {
                let mut rowsum = 0.0;
                for j in 0..n {
                    let inb = (i as isize - j as isize) <= ml as isize && (j as isize - i as isize) <= mu as isize;
                    if i != j && inb {
                        let v = off[(i * n + j) % off.len()];
                        m[i * n + j] = v;
                        rowsum += v.abs();
                    }
                }
                m[i * n + i] = 1.0 + rowsum * 1.5 + off[i % off.len()].abs();
            }
            // one case in three: the rows of M cyclically shifted by one (P M y' = P M g is the same equation): still
            // well conditioned, no longer diagonally dominant, and with ml = 0 the diagonal of P M is exactly zero in
            // rows whose off-diagonal entries carry the equation (only Full storage can hold it)
            let permuted = n >= 2 && off.len() >= 64 && off[61] > 0.3;
            if permuted {
                let src = m.clone();
                for i in 0..n {
                    for j in 0..n {
                        m[i * n + j] = src[((i + 1) % n) * n + j];
                    }
                }
            }
            let zero_diag = (0..n).any(|i| m[i * n + i] == 0.0);
            let not_diag = (0..n).any(|i| (0..n).any(|j| i != j && m[i * n + j] != 0.0));
            let mm = Matrix::from_vec(n, n, m.clone());
            let rhs = MassRhs { inner: &prob, m: &m };
            let plain = match solve_with(&prob, c, &y0, true, None, None, &Extra::default()) {
                Ok(s) => s,
                Err(e) => return Outcome::triv(format!("plain-run:{}", e.chars().take(30).collect::<String>())),
            };
            if plain.status != Status::Success {
                return Outcome::triv("plain-run-nonsuccess");
            }
            let full = match solve_with(&rhs, c, &y0, true, None, Some(&mm), &Extra { mass_storage: Some(MatrixStorage::Full), ..Default::default() }) {
                Ok(s) => s,
                Err(e) => return Outcome::viol(format!("RADAU with a Full mass matrix: {}", e)),
            };
            if full.status != Status::Success {
                return Outcome::viol(format!("RADAU: y'=g succeeds but M y' = M g (M well conditioned, Full storage) ends with {}", status_name(full.status)));
            }
            // cond(M) <= ~ (1 + 2.5 r)/(1 + 0.5 r) < 5
            for (t, y) in full.t.iter().zip(&full.y) {
                let e = max_abs_diff(y, &prob.exact(*t));
                let b = acc_bound(&prob, &full, c, 5.0);
                if e > b {
                    return Outcome::viol(format!("RADAU: M y' = M g at t={:e}: error {:e} vs exact solution of y'=g exceeds {:e} (n={}, ml={}, mu={})", t, e, b, n, ml, mu));
                }
            }
            // banded storage holding the same entries: bit-identical
            if !permuted && (ml < n - 1 || mu < n - 1 || n == 1) {
                let bnd = match solve_with(&rhs, c, &y0, true, None, Some(&mm), &Extra { mass_storage: Some(MatrixStorage::Banded { ml, mu }), ..Default::default() }) {
                    Ok(s) => s,
                    Err(e) => return Outcome::viol(format!("RADAU with a Banded{{{},{}}} mass matrix: {}", ml, mu, e)),
                };
                if !same(&full, &bnd) {
                    return Outcome::viol(format!("RADAU: the same mass matrix in Full and Banded{{ml:{},mu:{}}} storage gives different trajectories ({} vs {} steps)", ml, mu, full.naccpt, bnd.naccpt));
                }
            }
            // the same equation in other units: (2^k M) y' = (2^k M) g is an exact rescaling of both sides (every pivot,
            // every right-hand side of the linear systems scales by the same power of two): bit-identical
            let k = if off.len() >= 64 && off[62] > 0.2 { (off[63] * 100.0).round() as i32 } else { 0 };
            if k != 0 {
                let sc = 2f64.powi(k);
                let ms: Vec<f64> = m.iter().map(|v| v * sc).collect();
                let mms = Matrix::from_vec(n, n, ms.clone());
                let rhs_s = MassRhs { inner: &prob, m: &ms };
                let fs = match solve_with(&rhs_s, c, &y0, true, None, Some(&mms), &Extra { mass_storage: Some(MatrixStorage::Full), ..Default::default() }) {
                    Ok(s) => s,
                    Err(e) => return Outcome::viol(format!("RADAU with the mass matrix and right-hand side scaled by 2^{}: {}", k, e)),
                };
                if !same(&full, &fs) {
                    return Outcome::viol(format!("RADAU: M y' = M g and (2^{k} M) y' = (2^{k} M) g give different runs: {} / {} steps vs {} / {} steps (n={})", status_name(full.status), full.naccpt, status_name(fs.status), fs.naccpt, n, k = k));
                }
            }
            Outcome::pass(if zero_diag { "mass-ode:zero-on-diagonal" } else if permuted { "mass-ode:row-permuted" } else { "mass-ode" }, not_diag, json!({"n": n, "ml": ml, "mu": mu, "naccpt": full.naccpt, "mass_scale_log2": k}))
        }
        Kind::Dae { n2, b, cs, ds } => {
            let rhs = DaeRhs { inner: &prob, n2: *n2, b, cs, ds };
            let nn = n + n2;
            let mut y0f = y0.clone();
            for k in 0..*n2 {
                y0f.push(rhs.psi(k, &y0));
            }
            let mut m = Matrix::zeros(nn, nn);
            for i in 0..n {
                m[(i, i)] = 1.0;
            }
            let s = match solve_with(&rhs, c, &y0f, true, None, Some(&m), &Extra { mass_storage: Some(MatrixStorage::Full), ..Default::default() }) {
                Ok(s) => s,
                Err(e) => return Outcome::viol(format!("RADAU on an index-1 DAE: {}", e)),
            };
            if s.status != Status::Success {
                return Outcome::viol(format!("RADAU on an index-1 DAE (n1={}, n2={}) ended with {} after {} steps", n, n2, status_name(s.status), s.nstep));
            }
            let ymax = s.y.iter().fold(0.0f64, |mx, y| mx.max(inf_norm(y)));
            let tolscale = c.rtol * c.atol_rel + c.rtol * ymax;
            let nacc = s.naccpt.max(1) as f64;
            let bnorm = 1.0 + b.iter().fold(0.0f64, |mx, v| mx.max(v.abs())) * (*n2 as f64);
            let cmax = cs.iter().fold(0.0f64, |mx, v| mx.max(v.abs()));
            for (t, y) in s.t.iter().zip(&s.y) {
                for k in 0..*n2 {
                    let r = (y[n + k] - rhs.psi(k, &y[..n])).abs();
                    if r > crate::props::c01::C_BOUND * tolscale * nacc.sqrt() {
                        return Outcome::viol(format!("RADAU: algebraic constraint residual {:e} at t={:e} exceeds {:e}", r, t, crate::props::c01::C_BOUND * tolscale * nacc.sqrt()));
                    }
                }
                let e = max_abs_diff(&y[..n], &prob.exact(*t));
                let bd = acc_bound(&prob, &s, c, bnorm * (1.0 + cmax));
                if e > bd {
                    return Outcome::viol(format!("RADAU: differential part of the DAE at t={:e} is off the reduced ODE's exact solution by {:e} > {:e}", t, e, bd));
                }
            }
            // Banded mass storage for diag(I,0): identical
            let sb = solve_with(&rhs, c, &y0f, true, None, Some(&m), &Extra { mass_storage: Some(MatrixStorage::Banded { ml: 0, mu: 0 }), ..Default::default() });
            if let Ok(sb) = sb {
                if !same(&s, &sb) {
                    return Outcome::viol("RADAU: diag(I,0) mass in Full and Banded{0,0} storage gives different trajectories".to_string());
                }
            }
            Outcome::pass("dae", *n2 >= 1, json!({"n1": n, "n2": n2, "naccpt": s.naccpt}))
        }
        Kind::NoMass { ml, mu } => {
            let base = match solve_with(&prob, c, &y0, true, None, None, &Extra { mass_storage: Some(MatrixStorage::Identity), ..Default::default() }) {
                Ok(s) => s,
                Err(e) => return Outcome::triv(format!("plain-run:{}", e.chars().take(30).collect::<String>())),
            };
            let (ml, mu) = ((*ml).min(n.saturating_sub(1)), (*mu).min(n.saturating_sub(1)));
            for st in [MatrixStorage::Full, MatrixStorage::Banded { ml, mu }] {
                let s = match solve_with(&prob, c, &y0, true, None, None, &Extra { mass_storage: Some(st.clone()), ..Default::default() }) {
                    Ok(s) => s,
                    Err(e) => return Outcome::viol(format!("RADAU without a mass override, mass_storage={:?}: {}", st, e)),
                };
                if !same(&base, &s) {
                    let e = if let (Some(a), Some(b)) = (base.y.last(), s.y.last()) { max_abs_diff(a, b) } else { f64::NAN };
                    return Outcome::viol(format!("RADAU: no mass matrix supplied, yet mass_storage={:?} changes the result (status {} vs {}, final states differ by {:e})", st, status_name(s.status), status_name(base.status), e));
                }
            }
            // low-level builder with its documented defaults (mass storage Full)
            let none: Vec<EvSpec> = vec![];
            let mut instr = Instr::new(&prob, &none);
            instr.use_jac = true;
            instr.dir = sp.dir();
            let mut so = RecSolOut::new(vec![]);
            let lo = LowOpts::default();
            let r = guarded(|| solve_low(Meth::RADAU, &instr, sp.x0, sp.xend, &y0, &Tol::S(c.rtol), &Tol::S(c.rtol * c.atol_rel), &lo, &mut so));
            match r {
                Ok(Ok(res)) => {
                    if res.status != base.status || so.recs.len() != base.naccpt + 1 {
                        return Outcome::viol(format!("RADAU::builder() defaults: {} callbacks / {} vs solve_ivp {} steps / {}", so.recs.len(), status_name(res.status), base.naccpt, status_name(base.status)));
                    }
                    if let (Some(last), Some(yb)) = (so.recs.last(), base.y.last()) {
                        if base.t.len() == base.naccpt + 1 && !bits_eq(&last.y, yb) {
                            return Outcome::viol(format!("RADAU::builder() defaults give a different final state than solve_ivp (diff {:e})", max_abs_diff(&last.y, yb)));
                        }
                    }
                }
                other => return Outcome::viol(format!("RADAU::builder() defaults failed: {:?}", other.map(|r| r.map(|x| x.status)))),
            }
            Outcome::pass("no-mass", base.naccpt >= 3, json!({"n": n, "naccpt": base.naccpt}))
        }
        Kind::JacStorage { n, ml, mu, coef, diag } => {
            let (ml, mu) = ((*ml).min(n - 1), (*mu).min(n - 1));
            let rhs = BandRhs { n: *n, ml, mu, coef: coef.clone(), diag: diag.clone() };
            let y0b: Vec<f64> = (0..*n).map(|i| 0.5 * ((i as f64) * 0.7).cos()).collect();
            let full = match solve_with(&rhs, c, &y0b, true, None, None, &Extra { jac_storage: Some(MatrixStorage::Full), ..Default::default() }) {
                Ok(s) => s,
                Err(e) => return Outcome::triv(format!("full-run:{}", e.chars().take(30).collect::<String>())),
            };
            // the declared bandwidths may be wider than the coupling (up to two more diagonals, also beyond n-1: a
            // declaration such as Banded{1,1} for n = 1 is valid); the extra diagonals hold zeros
            let (dl, du) = (ml + (diag[0] * 1000.0) as usize % 3, mu + (diag[1 % diag.len()] * 1000.0) as usize % 3);
            let bnd = match solve_with(&rhs, c, &y0b, true, Some((ml, mu)), None, &Extra { jac_storage: Some(MatrixStorage::Banded { ml: dl, mu: du }), ..Default::default() }) {
                Ok(s) => s,
                Err(e) => return Outcome::viol(format!("{} with a Banded{{{},{}}} Jacobian: {}", name, dl, du, e)),
            };
            if !same(&full, &bnd) {
                let k = full.t.iter().zip(&bnd.t).position(|(a, b)| a.to_bits() != b.to_bits());
                return Outcome::viol(format!("{}: the same Jacobian in Full and Banded{{ml:{},mu:{}}} storage gives different trajectories (n={}, status {} vs {}, steps {} vs {}, first differing sample {:?})", name, dl, du, n, status_name(full.status), status_name(bnd.status), full.naccpt, bnd.naccpt, k));
            }
            // Radau with a mass matrix that has entries OUTSIDE the Jacobian's band (the first diagonals beyond it):
            // the iteration matrices fac*M - J then have a wider band than J; Full and Banded Jacobian storage must
            // still give the same run
            let mut mass_checked = false;
            if c.method == Meth::RADAU && *n >= 2 && (ml + 1 < *n || mu + 1 < *n) {
                let nn = *n;
                let mut m = Matrix::zeros(nn, nn);
                for i in 0..nn {
                    m[(i, i)] = 2.0;
                    if i + mu + 1 < nn {
                        m[(i, i + mu + 1)] = 0.5;
                    }
                    if i >= ml + 1 {
                        m[(i, i - ml - 1)] = -0.4;
                    }
                }
                let mf = solve_with(&rhs, c, &y0b, true, None, Some(&m), &Extra { jac_storage: Some(MatrixStorage::Full), mass_storage: Some(MatrixStorage::Full), ..Default::default() });
                let mb = solve_with(&rhs, c, &y0b, true, Some((ml, mu)), Some(&m), &Extra { jac_storage: Some(MatrixStorage::Banded { ml, mu }), mass_storage: Some(MatrixStorage::Full), ..Default::default() });
                match (mf, mb) {
                    (Ok(a), Ok(b)) => {
                        if !same(&a, &b) {
                            return Outcome::viol(format!("RADAU with a mass matrix reaching beyond the Jacobian's band: Full and Banded{{ml:{},mu:{}}} Jacobian storage give different runs (n={}, {} / {} steps vs {} / {} steps)", ml, mu, nn, status_name(a.status), a.naccpt, status_name(b.status), b.naccpt));
                        }
                        mass_checked = true;
                    }
                    (Ok(a), Err(e)) => return Outcome::viol(format!("RADAU with a mass matrix reaching beyond the Jacobian's band: Full Jacobian storage gives {}, Banded{{{},{}}} gives {}", status_name(a.status), ml, mu, e)),
                    _ => {}
                }
            }
            Outcome::pass(format!("{}:jac-storage", name), ml + 1 < *n || mu + 1 < *n, json!({"n": n, "ml": ml, "mu": mu, "naccpt": full.naccpt, "mass_beyond_band_checked": mass_checked as u8}))
        }
        Kind::IdentityMass => {
            let id = Matrix::identity(n);
            let base = match solve_with(&prob, c, &y0, true, None, None, &Extra { mass_storage: Some(MatrixStorage::Identity), ..Default::default() }) {
                Ok(s) => s,
                Err(e) => return Outcome::triv(format!("plain-run:{}", e.chars().take(30).collect::<String>())),
            };
            for st in [MatrixStorage::Full, MatrixStorage::Banded { ml: 0, mu: 0 }] {
                let s = match solve_with(&prob, c, &y0, true, None, Some(&id), &Extra { mass_storage: Some(st.clone()), ..Default::default() }) {
                    Ok(s) => s,
                    Err(e) => return Outcome::viol(format!("RADAU with the identity as user mass matrix in {:?} storage: {}", st, e)),
                };
                if !same(&base, &s) {
                    return Outcome::viol(format!("RADAU: identity mass in {:?} storage differs from implicit Identity storage", st));
                }
            }
            Outcome::pass("identity-mass", base.naccpt >= 3, json!({"n": n}))
        }
        Kind::FdJacobian { mags, at } => {
            // the same problem with per-component units 2^k_i
            let mut spec = c.prob.clone();
            let rot = spec.mix.as_ref().map(|m| m.rot.clone()).unwrap_or_default();
            spec.mix = Some(Mix { rot, scale: (0..n).map(|i| 2f64.powi(mags[i % mags.len()] as i32)).collect() });
            let prob = Prob::new(&spec, sp.x0, sp.xend);
            let t = sp.x0 + at * (sp.xend - sp.x0);
            let y = prob.exact(t);
            let none: Vec<EvSpec> = vec![];
            let mut instr = Instr::new(&prob, &none);
            instr.use_jac = false;
            let mut jm = ivp::prelude::Matrix::full(n, n);
            {
                use ivp::prelude::IVP;
                instr.jac(t, &y, &mut jm);
            }
            let mut ja = vec![0.0; n * n];
            prob.jac_dense(t, &y, &mut ja);
            let mut f0 = vec![0.0; n];
            prob.f(t, &y, &mut f0);
            let se = f64::EPSILON.sqrt();
            let mut worst: f64 = 0.0;
            // rounding noise of the right-hand side at this state, measured: largest change of f_i under
            // perturbations of y by one or two ulps in every component (the mixing S g(S^-1 y) cancels, so the
            // noise is not eps*|f_i|)
            let mut noise = vec![0.0f64; n];
            for q in 0..12 {
                let yq: Vec<f64> = y.iter().enumerate().map(|(k, v)| v * (1.0 + f64::EPSILON * (((k + q + q / 3) % 3) as f64 - 1.0) * (1.0 + (q / 2 % 2) as f64))).collect();
                let mut fq = vec![0.0; n];
                prob.f(t, &yq, &mut fq);
                for i in 0..n {
                    noise[i] = noise[i].max((fq[i] - f0[i]).abs());
                }
            }
            for j in 0..n {
                // documented increment; truncation error of a forward difference from the harness's own second difference
                let delta = se * y[j].abs().max(1.0);
                let (mut yp, mut ym) = (y.clone(), y.clone());
                yp[j] += delta;
                ym[j] -= delta;
                let (mut fp, mut fm) = (vec![0.0; n], vec![0.0; n]);
                prob.f(t, &yp, &mut fp);
                prob.f(t, &ym, &mut fm);
                for i in 0..n {
                    let second = (fp[i] - 2.0 * f0[i] + fm[i]).abs();
                    let fscale = f0[i].abs().max(fp[i].abs()).max(fm[i].abs());
                    let tol = 4.0 * second / (2.0 * delta) + (64.0 * noise[i] + 64.0 * f64::EPSILON * fscale) / delta + 1e-9 * ja[i * n + j].abs();
                    let e = (jm[(i, j)] - ja[i * n + j]).abs();
                    if e > tol {
                        return Outcome::viol(format!("default finite-difference Jacobian: entry ({},{}) = {:e} but the analytic one is {:e} (difference {:e}, allowed {:e}; |y_j| = {:e}, |y_i| = {:e})", i, j, jm[(i, j)], ja[i * n + j], e, tol, y[j].abs(), y[i].abs()));
                    }
                    if tol > 0.0 {
                        worst = worst.max(e / tol);
                    }
                }
            }
            // and the runs: when the analytic Jacobian gets through, the default one must too, within the bound
            let y0 = prob.y0();
            let sa = match solve_with(&prob, c, &y0, true, None, None, &Extra::default()) {
                Ok(s) => s,
                Err(e) => return Outcome::triv(format!("run:{}", e.chars().take(30).collect::<String>())),
            };
            if sa.status != Status::Success {
                return Outcome::triv(format!("status:{}", status_name(sa.status)));
            }
            let sf = match solve_with(&prob, c, &y0, false, None, None, &Extra::default()) {
                Ok(s) => s,
                Err(e) => return Outcome::viol(format!("{}: solves with the analytic Jacobian but with the default finite-difference one: {}", name, e)),
            };
            if sf.status != Status::Success {
                return Outcome::viol(format!("{}: Success with the analytic Jacobian ({} steps) but {} with the default finite-difference one ({} steps; component magnitudes 2^{:?})", name, sa.naccpt, status_name(sf.status), sf.nstep, &mags[..n.min(mags.len())]));
            }
            let b = acc_bound(&prob, &sf, c, 1.0);
            for (t, y) in sf.t.iter().zip(&sf.y) {
                let e = max_abs_diff(y, &prob.exact(*t));
                if e > b {
                    return Outcome::viol(format!("{} with the finite-difference Jacobian: error {:e} at t={:e} exceeds {:e}", name, e, t, b));
                }
            }
            Outcome::pass(format!("{}:fd-jacobian", name), mags.iter().take(n).any(|k| *k >= 1), json!({"n": n, "fd_jac_err_over_allowed": worst, "steps_fd": sf.naccpt, "steps_analytic": sa.naccpt}))
        }
        Kind::JacSource => {
            for analytic in [true, false] {
                let s = match solve_with(&prob, c, &y0, analytic, None, None, &Extra::default()) {
                    Ok(s) => s,
                    Err(e) => return Outcome::triv(format!("run:{}", e.chars().take(30).collect::<String>())),
                };
                if s.status != Status::Success {
                    if !analytic {
                        return Outcome::viol(format!("{}: Success with the analytic Jacobian but {} with the default finite-difference one", name, status_name(s.status)));
                    }
                    return Outcome::triv(format!("status:{}", status_name(s.status)));
                }
                let b = acc_bound(&prob, &s, c, 1.0);
                for (t, y) in s.t.iter().zip(&s.y) {
                    let e = max_abs_diff(y, &prob.exact(*t));
                    if e > b {
                        return Outcome::viol(format!("{} with {} Jacobian: error {:e} at t={:e} exceeds {:e}", name, if analytic { "the analytic" } else { "the finite-difference" }, e, t, b));
                    }
                }
            }
            Outcome::pass(format!("{}:jac-source", name), true, json!({"n": n}))
        }
    }
}

pub fn strategy() -> BoxedStrategy<Case> {
    let kind = prop_oneof![
        3 => (proptest::collection::vec(fr(-1.0, 1.0), 64..=64), 0usize..=8, 0usize..=8).prop_map(|(off, ml, mu)| Kind::MassOde { off, ml, mu }),
        3 => (1usize..=4, proptest::collection::vec(fr(-1.0, 1.0), 16..=16), proptest::collection::vec(fr(-1.0, 1.0), 4..=4), proptest::collection::vec(fr(-3.0, 3.0), 4..=4)).prop_map(|(n2, b, cs, ds)| Kind::Dae { n2, b, cs, ds }),
        2 => (0usize..=8, 0usize..=8).prop_map(|(ml, mu)| Kind::NoMass { ml, mu }),
        // off-diagonal couplings up to 10^3.5, not diagonally dominant in general, so that the
        // factorisation of I - cJ (resp. E1, E2) needs row interchanges and creates fill-in
        4 => (1usize..=8, 0usize..=7, 0usize..=7, proptest::collection::vec((fr(-1.0, 1.0), log10(-0.5, 3.5)), 64..=64), proptest::collection::vec(log10(-0.5, 3.5), 8..=8))
            .prop_map(|(n, ml, mu, coef, diag)| Kind::JacStorage { n, ml, mu, coef: coef.into_iter().map(|(s, m)| s * m).collect(), diag }),
        1 => Just(Kind::IdentityMass),
        1 => Just(Kind::JacSource),
        2 => (proptest::collection::vec(0u8..=10, 6..=6), fr(0.0, 1.0)).prop_map(|(mags, at)| Kind::FdJacobian { mags, at }),
    ];
    (prob_spec(6, 0.5, 6.0), span_mid(), prop_oneof![Just(Meth::RADAU), Just(Meth::BDF)], fr(3.0, 8.0), fr(-3.0, 0.0), kind)
        .prop_map(|(prob, span, method, re, ar, kind)| {
            // mass matrices are Radau only
            let method = match kind {
                Kind::JacStorage { .. } | Kind::JacSource | Kind::FdJacobian { .. } => method,
                _ => Meth::RADAU,
            };
            Case { prob, span, method, rtol: 10f64.powf(-re), atol_rel: 10f64.powf(ar), kind }
        })
        .boxed()
}

pub fn run(ctx: &Ctx, known: &[Known]) -> Report {
    let cases = match ctx.tier {
        Tier::Quick => 20_000,
        Tier::Thorough => 600_000,
    };
    let stats = run_generated(ctx, "C15", "gen", &strategy, &check, cases, known);
    Report {
        id: "C15".into(),
        rule: "six kinds of cases on closed-form problems (n<=6) and banded nonlinear systems (n<=8): (a) M y' = M g with M strictly diagonally dominant, dense or banded (all (ml,mu)), against the exact solution of y'=g, and Full vs Banded mass storage bit-identical, and both sides multiplied by 2^k (k up to +-100) bit-identical; in a third of the cases the rows of M are cyclically shifted (the same equation, M no longer diagonally dominant; with ml = 0 its diagonal is exactly zero in rows that carry an equation in their off-diagonal entries; Full storage only); (b) index-1 DAEs y1' = g(t,y1) + B(y2 - psi(y1)), 0 = psi(y1) - y2 with M = diag(I,0): constraint residual at every sample and y1 against the exact solution of the reduced ODE; (c) no mass override: mass_storage Identity / Full / Banded and the low-level RADAU::builder() defaults give the same run; (d) Full vs Banded Jacobian storage with an analytic banded Jacobian, Radau and BDF, bit-identical incl. counters; identity mass in Identity / Full / Banded{0,0}; (e) analytic vs finite-difference Jacobian both within the accuracy bound (a run that succeeds with the analytic one must succeed with the default one); (f) the default finite-difference Jacobian entry by entry against the analytic one at an on-solution state with component magnitudes 2^0..2^10 (tolerance = 4 x the forward-difference truncation term measured by the harness's own second difference + 16 x the measured rounding noise of f / delta), and the two runs. Non-trivial = M not diagonal / n2 >= 1 / bandwidth below n-1 / at least 3 steps. Distinct = distinct canonical JSON.".into(),
        assumptions: vec!["accuracy bound as in C01 with cond(M) <= 5 for the diagonally dominant mass matrices".into(), "constraint residual bound C*tolscale*sqrt(naccpt)".into()],
        min_nontrivial_frac: 0.5,
        stats,
        exhaustive: false,
    }
}
