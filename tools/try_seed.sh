#!/usr/bin/env bash
# tools/try_seed.sh <patch.diff> <Cxx> [Cyy ...]   -- apply a seeded change to /repo, run the quick checks, undo it.
set -u
patch="$1"; shift
cd /repo || exit 2
if [ -n "$(git status --porcelain --untracked-files=no)" ]; then echo "/repo not clean"; exit 2; fi
if ! git apply "$patch" 2>/tmp/apply.err; then
  git reset -q --hard HEAD
  if ! git apply --3way "$patch" 2>>/tmp/apply.err || [ -n "$(git diff --name-only --diff-filter=U)" ]; then echo "PATCH DOES NOT APPLY: $patch"; head -5 /tmp/apply.err; git reset -q --hard HEAD; exit 2; fi
  git reset -q 2>/dev/null
fi
for id in "$@"; do
  out=$(cd /verif && ./check "$id" --tier quick 2>&1); rc=$?
  echo "== $id rc=$rc :: $(echo "$out" | grep -E 'VIOLATION|oracle:|GENERATOR|INCONCL|BUILD' | head -3 | tr '\n' ' ')"
done
git -C /repo reset -q --hard HEAD
git -C /repo status --porcelain --untracked-files=no | head -3
