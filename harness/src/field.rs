//! Random smooth dissipative vector fields (DESIGN §3) and an independent reference integrator.
//!
//!   y' = -D y + B tanh(W y + c) + s sin(w t + psi),   D_ii >= |B|_inf |W|_inf + 0.2
//!
//! The one-sided Lipschitz constant is <= -0.2: the flow is contractive (amplification bound 1).
//! The reference is the harness's own classical RK4 with N and 2N uniform sub-steps per reported
//! interval and Richardson extrapolation, N doubled until both agree; it shares no code with the crate
//! and always continues from its own previous value.

use crate::instr::Rhs;
use serde::{Deserialize, Serialize};

#[derive(Serialize, Deserialize, Clone, Debug)]
pub struct FieldSpec {
    pub n: usize,
    pub b: Vec<f64>, // n*n
    pub w: Vec<f64>, // n*n
    pub c: Vec<f64>,
    pub s: Vec<f64>,
    pub om: Vec<f64>,
    pub psi: Vec<f64>,
    pub dextra: Vec<f64>,
    pub y0: Vec<f64>,
}

pub struct Field {
    pub spec: FieldSpec,
    pub d: Vec<f64>,
    pub x0: f64,
    pub dir: f64,
    /// intrinsic time per unit t
    pub speed: f64,
}

impl Field {
    pub fn new(spec: &FieldSpec, x0: f64, xend: f64, theta: f64) -> Field {
        let n = spec.n;
        let norm = |m: &[f64]| (0..n).map(|i| (0..n).map(|j| m[i * n + j].abs()).sum::<f64>()).fold(0.0, f64::max);
        let bound = norm(&spec.b) * norm(&spec.w) + 0.2;
        let d = (0..n).map(|i| bound + spec.dextra[i].abs()).collect();
        let span = (xend - x0).abs();
        Field { spec: spec.clone(), d, x0, dir: if xend >= x0 { 1.0 } else { -1.0 }, speed: theta / span }
    }
    /// largest rate (1/t): bounds sensible step sizes
    pub fn rate_t(&self) -> f64 {
        let dm = self.d.iter().cloned().fold(0.0, f64::max);
        let om = self.spec.om.iter().cloned().fold(0.0, f64::max);
        (2.0 * dm + om) * self.speed
    }
    fn g(&self, tau: f64, y: &[f64], out: &mut [f64]) {
        let n = self.spec.n;
        let sp = &self.spec;
        let mut th = [0.0f64; 8];
        for i in 0..n {
            let mut a = sp.c[i];
            for j in 0..n {
                a += sp.w[i * n + j] * y[j];
            }
            th[i] = a.tanh();
        }
        for i in 0..n {
            let mut a = -self.d[i] * y[i] + sp.s[i] * (sp.om[i] * tau + sp.psi[i]).sin();
            for j in 0..n {
                a += sp.b[i * n + j] * th[j];
            }
            out[i] = a;
        }
    }
}

impl Rhs for Field {
    fn dim(&self) -> usize {
        self.spec.n
    }
    fn f(&self, t: f64, y: &[f64], dy: &mut [f64]) {
        let tau = (t - self.x0) * self.dir * self.speed;
        self.g(tau, y, dy);
        let c = self.dir * self.speed;
        for v in dy.iter_mut() {
            *v *= c;
        }
    }
}

fn rk4_steps(f: &Field, t0: f64, t1: f64, y: &[f64], nsub: usize) -> Vec<f64> {
    let n = y.len();
    let h = (t1 - t0) / nsub as f64;
    let mut y = y.to_vec();
    let (mut k1, mut k2, mut k3, mut k4, mut yt) = (vec![0.0; n], vec![0.0; n], vec![0.0; n], vec![0.0; n], vec![0.0; n]);
    for s in 0..nsub {
        let t = t0 + h * s as f64;
        f.f(t, &y, &mut k1);
        for i in 0..n {
            yt[i] = y[i] + 0.5 * h * k1[i];
        }
        f.f(t + 0.5 * h, &yt, &mut k2);
        for i in 0..n {
            yt[i] = y[i] + 0.5 * h * k2[i];
        }
        f.f(t + 0.5 * h, &yt, &mut k3);
        for i in 0..n {
            yt[i] = y[i] + h * k3[i];
        }
        f.f(t + h, &yt, &mut k4);
        for i in 0..n {
            y[i] += h / 6.0 * (k1[i] + 2.0 * k2[i] + 2.0 * k3[i] + k4[i]);
        }
    }
    y
}

/// Reference values at the given times (in integration order, starting after x0).  None if the
/// Richardson pair does not agree to 1e-13 (1+|y|) by 2^14 sub-steps on some interval.
pub fn reference(f: &Field, times: &[f64]) -> Option<Vec<Vec<f64>>> {
    let mut out = Vec::with_capacity(times.len());
    let mut t = f.x0;
    let mut y = f.spec.y0.clone();
    for &t1 in times {
        if t1 == t {
            out.push(y.clone());
            continue;
        }
        // start with sub-steps that resolve the fastest rate
        let mut nsub = (((t1 - t).abs() * f.rate_t() / 0.05).ceil() as usize).max(2).next_power_of_two();
        let mut prev = rk4_steps(f, t, t1, &y, nsub);
        let mut done = None;
        while nsub <= (1 << 14) {
            let fine = rk4_steps(f, t, t1, &y, 2 * nsub);
            // Richardson: error of the fine solution ~ (fine - coarse)/15
            let mut ok = true;
            let mut ex = vec![0.0; y.len()];
            for i in 0..y.len() {
                let e = (fine[i] - prev[i]) / 15.0;
                ex[i] = fine[i] + e;
                if e.abs() > 1e-13 * (1.0 + fine[i].abs()) {
                    ok = false;
                }
            }
            if ok {
                done = Some(ex);
                break;
            }
            prev = fine;
            nsub *= 2;
        }
        y = done?;
        t = t1;
        out.push(y.clone());
    }
    Some(out)
}
