#!/usr/bin/env bash
# fuzz/run.sh <target> <property id> <runs>   -- fixed-work libFuzzer campaign with the property's own oracle
# exit 0: no violation; 1: VIOLATION line printed; 2: could not run (build failure etc.)
set -u
target="$1"; id="$2"; runs="$3"
HERE="$(cd "$(dirname "$0")" && pwd)"; HARNESS="$(dirname "$HERE")"; VERIF_DIR="${VERIF_DIR:-$(dirname "$HARNESS")}"
export CARGO_NET_OFFLINE=true VERIF_DIR
( cd "$HARNESS" && cargo +nightly fuzz build "$target" >"$HERE/build.log" 2>&1 ) || { echo "FUZZ-BUILD-FAILED target=$target (see harness/fuzz/build.log)"; tail -5 "$HERE/build.log"; exit 2; }
work="$(mktemp -d)"; trap 'rm -rf "$work"' EXIT
mkdir -p "$work/corpus" "$work/artifacts"
cp "$HERE/corpus/$target"/* "$work/corpus/" 2>/dev/null
seed=$(( ${VERIF_SEED:-0} + 1 ))
bin="$HERE/target/x86_64-unknown-linux-gnu/release/$target"
# J independent libFuzzer processes (own corpus copy, own seed), runs/J executions each
J=${VERIF_FUZZ_JOBS:-12}
per=$(( (runs + J - 1) / J ))
rc=0
for k in $(seq 0 $((J-1))); do
  mkdir -p "$work/corpus$k" "$work/artifacts$k"
  cp "$work/corpus"/* "$work/corpus$k/" 2>/dev/null
  ( "$bin" "$work/corpus$k" -runs="$per" -seed="$(( seed * 1000 + k ))" -max_len=1024 -len_control=0 -timeout=120 -rss_limit_mb=4096 -artifact_prefix="$work/artifacts$k/" >"$work/log$k" 2>&1; echo $? > "$work/rc$k" ) &
done
wait
ncorp=0
for k in $(seq 0 $((J-1))); do
  r=$(cat "$work/rc$k" 2>/dev/null || echo 99); [ "$r" -ne 0 ] && rc=$r
  ncorp=$(( ncorp + $(ls "$work/corpus$k" | wc -l) ))
done
cat "$work"/log* > "$work/log"
stats=$(grep -E "DONE|Done" "$work/log0" | tr '\n' ' ')
stats="$J processes x $per runs; first: $stats"
viol=$(grep -m1 "FUZZ-VIOLATION" "$work/log")
python3 - "$VERIF_DIR/evidence/$id.json" "$target" "$runs" "$seed" "$ncorp" "$rc" "$stats" <<'PY'
import json,sys
p,target,runs,seed,ncorp,rc,stats=sys.argv[1:]
try: ev=json.load(open(p))
except Exception: sys.exit(0)
ev["coverage"]["fuzz_campaign"]={"engine":"libFuzzer (cargo-fuzz), several independent processes, bytes decoded by harness/src/bytes.rs into the property's case type, same oracle","target":target,"runs_requested":int(runs),"libfuzzer_seed":int(seed),"corpus_files_after":int(ncorp),"exit_code":int(rc),"summary":stats}
json.dump(ev,open(p,"w"),indent=1)
PY
if [ -n "$viol" ]; then
  replay=$(echo "$viol" | sed -n 's/.*replay=\([^ ]*\).*/\1/p')
  echo "  oracle: ${viol#*:: }"
  echo "VIOLATION property=$id replay=$replay"
  exit 1
fi
if [ $rc -ne 0 ]; then
  # a crash/timeout/oom that is not an oracle verdict: keep the input, report as inconclusive
  mkdir -p "$VERIF_DIR/replays"; cp "$work"/artifacts*/* "$VERIF_DIR/replays/" 2>/dev/null
  echo "INCONCLUSIVE property=$id fuzz target $target stopped with exit code $rc ($(grep -m1 -E 'ERROR|SUMMARY' "$work/log"))"
  exit 2
fi
echo "fuzz $target: $stats corpus=$ncorp"
exit 0
