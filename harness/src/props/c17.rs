//! C17 — Matrix values do not depend on the storage scheme (dense reference model).

use crate::engine::*;
use ivp::matrix::{Matrix, MatrixStorage};
use ivp::{banded_matrix, matrix};
use proptest::prelude::*;
use serde::{Deserialize, Serialize};
use serde_json::json;
use std::panic::{catch_unwind, AssertUnwindSafe};

#[derive(Serialize, Deserialize, Clone, Copy, Debug, PartialEq)]
pub enum Ctor {
    Identity,
    FromVec,
    FromStorageIdentity,
    FromStorageFull,
    FromStorageBanded,
    Full,
    Square,
    Zeros,
    Banded,
    Diagonal,
    Lower,
    Upper,
    MacroMatrix,
    MacroBanded,
}

pub const CTORS: [Ctor; 14] = [
    Ctor::Identity,
    Ctor::FromVec,
    Ctor::FromStorageIdentity,
    Ctor::FromStorageFull,
    Ctor::FromStorageBanded,
    Ctor::Full,
    Ctor::Square,
    Ctor::Zeros,
    Ctor::Banded,
    Ctor::Diagonal,
    Ctor::Lower,
    Ctor::Upper,
    Ctor::MacroMatrix,
    Ctor::MacroBanded,
];

#[derive(Serialize, Deserialize, Clone, Debug)]
pub struct MatSpec {
    pub ctor: Ctor,
    pub ml: usize,
    pub mu: usize,
    /// n*n small dyadic values (k/8); only writable positions are used
    pub vals: Vec<i16>,
}

#[derive(Serialize, Deserialize, Clone, Debug)]
pub enum Op {
    Add,
    Sub,
    AddAssign,
    SubAssign,
    SubAssignRef,
    CompAdd(f64),
    CompSub(f64),
    CompMul(f64),
    CompMulMut(f64),
    Swap,
    Write(usize, usize, i16),
    IsIdentity,
    ReadAll,
}

#[derive(Serialize, Deserialize, Clone, Debug)]
pub struct Case {
    pub n: usize,
    pub a: MatSpec,
    pub b: MatSpec,
    pub ops: Vec<Op>,
}

fn dy(v: i16) -> f64 {
    v as f64 / 8.0
}

/// build the matrix and its dense model; Err(msg) if construction/read panics
fn build(n: usize, s: &MatSpec) -> Result<(Matrix, Vec<f64>), String> {
    let r = catch_unwind(AssertUnwindSafe(|| -> (Matrix, Vec<f64>) {
        let ml = s.ml.min(n);
        let mu = s.mu.min(n);
        let mut model = vec![0.0; n * n];
        let val = |i: usize, j: usize| dy(s.vals[(i * n + j) % s.vals.len().max(1)]);
        let mut m = match s.ctor {
            Ctor::Identity => Matrix::identity(n),
            Ctor::FromStorageIdentity => Matrix::from_storage(n, n, MatrixStorage::Identity),
            Ctor::FromVec => {
                let mut d = vec![0.0; n * n];
                for i in 0..n {
                    for j in 0..n {
                        d[i * n + j] = val(i, j);
                        model[i * n + j] = val(i, j);
                    }
                }
                return (Matrix::from_vec(n, n, d), model);
            }
            Ctor::FromStorageFull => Matrix::from_storage(n, n, MatrixStorage::Full),
            Ctor::FromStorageBanded => Matrix::from_storage(n, n, MatrixStorage::Banded { ml, mu }),
            Ctor::Full => Matrix::full(n, n),
            Ctor::Square => Matrix::square(n),
            Ctor::Zeros => Matrix::zeros(n, n),
            Ctor::Banded => Matrix::banded(n, ml, mu),
            Ctor::Diagonal => {
                let d: Vec<f64> = (0..n).map(|i| val(i, i)).collect();
                for i in 0..n {
                    model[i * n + i] = d[i];
                }
                return (Matrix::diagonal(d), model);
            }
            Ctor::Lower => Matrix::lower_triangular(n),
            Ctor::Upper => Matrix::upper_triangular(n),
            Ctor::MacroMatrix => {
                // the `;` form with run-time values; fixed shapes 1..3, otherwise from_vec
                let m = match n {
                    1 => matrix![val(0, 0)],
                    2 => matrix![val(0,0), val(0,1); val(1,0), val(1,1)],
                    3 => matrix![val(0,0), val(0,1), val(0,2); val(1,0), val(1,1), val(1,2); val(2,0), val(2,1), val(2,2)],
                    _ => {
                        let mut d = vec![0.0; n * n];
                        for i in 0..n { for j in 0..n { d[i * n + j] = val(i, j); } }
                        Matrix::from_vec(n, n, d)
                    }
                };
                for i in 0..n { for j in 0..n { model[i * n + j] = val(i, j); } }
                return (m, model);
            }
            Ctor::MacroBanded => {
                match n {
                    2 => {
                        let m = banded_matrix!(0 => [val(0,0), val(1,1)], 1 => [val(1,0)], -1 => [val(0,1)]);
                        for i in 0..n { for j in 0..n { model[i * n + j] = val(i, j); } }
                        return (m, model);
                    }
                    3 => {
                        let m = banded_matrix!(0 => [val(0,0), val(1,1), val(2,2)], 1 => [val(1,0), val(2,1)], -2 => [val(0,2)]);
                        for i in 0..3 { model[i * 3 + i] = val(i, i); }
                        model[1 * 3 + 0] = val(1, 0);
                        model[2 * 3 + 1] = val(2, 1);
                        model[0 * 3 + 2] = val(0, 2);
                        return (m, model);
                    }
                    4 => {
                        let m = banded_matrix!(2 => [val(2,0), val(3,1)], 0 => [val(0,0), val(1,1), val(2,2), val(3,3)]);
                        for i in 0..4 { model[i * 4 + i] = val(i, i); }
                        model[2 * 4 + 0] = val(2, 0);
                        model[3 * 4 + 1] = val(3, 1);
                        return (m, model);
                    }
                    5..=8 => {
                        // run-time offsets in a run-time listing order: three two-entry diagonals and the main one.
                        // a = outermost sub-, b = outermost super-diagonal, c = an inner one on either side.
                        let a = ml.min(n - 2) as isize;
                        let b = -(mu.min(n - 2) as isize);
                        let c = if (ml + mu) % 2 == 0 { a / 2 } else { b / 2 };
                        let ks = match (ml * 7 + mu * 3 + n) % 6 {
                            0 => [a, b, c],
                            1 => [a, c, b],
                            2 => [b, a, c],
                            3 => [b, c, a],
                            4 => [c, a, b],
                            _ => [c, b, a],
                        };
                        let e = |k: isize, t: usize| if k >= 0 { val(t + k as usize, t) } else { val(t, t + (-k) as usize) };
                        let (k1, k2, k3) = (ks[0], ks[1], ks[2]);
                        let m = match n {
                            5 => banded_matrix!(k1 => [e(k1, 0), e(k1, 1)], k2 => [e(k2, 0), e(k2, 1)], 0 => [val(0,0), val(1,1), val(2,2), val(3,3), val(4,4)], k3 => [e(k3, 0), e(k3, 1)]),
                            6 => banded_matrix!(k1 => [e(k1, 0), e(k1, 1)], k2 => [e(k2, 0), e(k2, 1)], 0 => [val(0,0), val(1,1), val(2,2), val(3,3), val(4,4), val(5,5)], k3 => [e(k3, 0), e(k3, 1)]),
                            7 => banded_matrix!(k1 => [e(k1, 0), e(k1, 1)], k2 => [e(k2, 0), e(k2, 1)], 0 => [val(0,0), val(1,1), val(2,2), val(3,3), val(4,4), val(5,5), val(6,6)], k3 => [e(k3, 0), e(k3, 1)]),
                            _ => banded_matrix!(k1 => [e(k1, 0), e(k1, 1)], k2 => [e(k2, 0), e(k2, 1)], 0 => [val(0,0), val(1,1), val(2,2), val(3,3), val(4,4), val(5,5), val(6,6), val(7,7)], k3 => [e(k3, 0), e(k3, 1)]),
                        };
                        for i in 0..n { model[i * n + i] = val(i, i); }
                        for k in ks {
                            for t in 0..2usize {
                                let (i, j) = if k >= 0 { (t + k as usize, t) } else { (t, t + (-k) as usize) };
                                model[i * n + j] = val(i, j);
                            }
                        }
                        return (m, model);
                    }
                    _ => Matrix::banded(n, ml, mu),
                }
            }
        };
        // identity-like
        if matches!(m.storage, MatrixStorage::Identity) {
            for i in 0..n {
                model[i * n + i] = 1.0;
            }
            return (m, model);
        }
        // fill writable entries through IndexMut
        let (wl, wu) = match &m.storage {
            MatrixStorage::Full => (n, n),
            MatrixStorage::Banded { ml, mu } => (*ml, *mu),
            MatrixStorage::Identity => unreachable!(),
        };
        for i in 0..n {
            for j in 0..n {
                let k = i as isize - j as isize;
                if k <= wl as isize && -k <= wu as isize {
                    let v = val(i, j);
                    m[(i, j)] = v;
                    model[i * n + j] = v;
                }
            }
        }
        (m, model)
    }));
    r.map_err(|p| format!("constructor {:?} (n={}, ml={}, mu={}) panicked: {}", s.ctor, n, s.ml, s.mu, crate::util::panic_msg(&p)))
}

fn compare(tag: &str, m: &Matrix, model: &[f64], n: usize) -> Result<(), String> {
    if m.nrows() != n || m.ncols() != n {
        return Err(format!("{}: dims {:?} != {}x{}", tag, m.dims(), n, n));
    }
    for i in 0..n {
        for j in 0..n {
            let got = catch_unwind(AssertUnwindSafe(|| m[(i, j)]));
            match got {
                Ok(v) => {
                    if !(v == model[i * n + j]) {
                        return Err(format!("{}: entry ({},{}) = {} but dense model has {} (storage {:?})", tag, i, j, v, model[i * n + j], m.storage));
                    }
                }
                Err(p) => return Err(format!("{}: reading ({},{}) panicked: {} (storage {:?})", tag, i, j, crate::util::panic_msg(&p), m.storage)),
            }
        }
    }
    Ok(())
}

fn storage_class(m: &Matrix) -> &'static str {
    match m.storage {
        MatrixStorage::Identity => "I",
        MatrixStorage::Full => "F",
        MatrixStorage::Banded { .. } => "B",
    }
}

pub fn check(c: &Case) -> Outcome {
    let n = c.n;
    let (mut a, mut ma) = match build(n, &c.a) {
        Ok(x) => x,
        Err(e) => return Outcome::viol(e),
    };
    let (mut b, mut mb) = match build(n, &c.b) {
        Ok(x) => x,
        Err(e) => return Outcome::viol(e),
    };
    if let Err(e) = compare("A after construction", &a, &ma, n) {
        return Outcome::viol(e);
    }
    if let Err(e) = compare("B after construction", &b, &mb, n) {
        return Outcome::viol(e);
    }
    let mut mixed = false;
    let mut widened = false;
    let mut class = format!("{}{}", storage_class(&a), storage_class(&b));
    for (k, op) in c.ops.iter().enumerate() {
        let sa = storage_class(&a);
        let sb = storage_class(&b);
        let tag = format!("step {} {:?} on {}/{}", k, op, sa, sb);
        let binop = |f: &dyn Fn(f64, f64) -> f64, ma: &Vec<f64>, mb: &Vec<f64>| -> Vec<f64> { ma.iter().zip(mb).map(|(x, y)| f(*x, *y)).collect() };
        let is_bin = matches!(op, Op::Add | Op::Sub | Op::AddAssign | Op::SubAssign | Op::SubAssignRef);
        if is_bin {
            if sa != sb {
                mixed = true;
            }
            if let (MatrixStorage::Banded { ml: l1, mu: u1 }, MatrixStorage::Banded { ml: l2, mu: u2 }) = (&a.storage, &b.storage) {
                if l1 != l2 || u1 != u2 {
                    widened = true;
                }
            }
        }
        let res = catch_unwind(AssertUnwindSafe(|| -> Result<(), String> {
            match op {
                Op::Add => {
                    a = a.clone() + b.clone();
                    ma = binop(&|x, y| x + y, &ma, &mb);
                }
                Op::Sub => {
                    a = a.clone() - b.clone();
                    ma = binop(&|x, y| x - y, &ma, &mb);
                }
                Op::AddAssign => {
                    a += b.clone();
                    ma = binop(&|x, y| x + y, &ma, &mb);
                }
                Op::SubAssign => {
                    a -= b.clone();
                    ma = binop(&|x, y| x - y, &ma, &mb);
                }
                Op::SubAssignRef => {
                    a -= &b;
                    ma = binop(&|x, y| x - y, &ma, &mb);
                }
                Op::CompAdd(s) => {
                    a = a.clone().component_add(*s);
                    for v in ma.iter_mut() {
                        *v += *s;
                    }
                }
                Op::CompSub(s) => {
                    a = a.clone().component_sub(*s);
                    for v in ma.iter_mut() {
                        *v -= *s;
                    }
                }
                Op::CompMul(s) => {
                    a = a.clone().component_mul(*s);
                    for v in ma.iter_mut() {
                        *v *= *s;
                    }
                }
                Op::CompMulMut(s) => {
                    a.component_mul_mut(*s);
                    for v in ma.iter_mut() {
                        *v *= *s;
                    }
                }
                Op::Swap => {
                    std::mem::swap(&mut a, &mut b);
                    std::mem::swap(&mut ma, &mut mb);
                }
                Op::Write(i, j, v) => {
                    let (i, j) = (i % n, j % n);
                    let writable = match &a.storage {
                        MatrixStorage::Full => true,
                        MatrixStorage::Identity => false,
                        MatrixStorage::Banded { ml, mu } => {
                            let k = i as isize - j as isize;
                            k <= *ml as isize && -k <= *mu as isize
                        }
                    };
                    let val = dy(*v);
                    let w = catch_unwind(AssertUnwindSafe(|| {
                        a[(i, j)] = val;
                    }));
                    if writable {
                        if w.is_err() {
                            return Err(format!("in-band write ({},{}) panicked", i, j));
                        }
                        ma[i * n + j] = val;
                    } else if w.is_ok() {
                        return Err(format!("write to non-writable entry ({},{}) of {:?} did not panic", i, j, a.storage));
                    }
                }
                Op::IsIdentity => {
                    let want = (0..n).all(|i| (0..n).all(|j| ma[i * n + j] == if i == j { 1.0 } else { 0.0 }));
                    let got = a.is_identity();
                    if got != want {
                        return Err(format!("is_identity() = {} but dense model says {}", got, want));
                    }
                }
                Op::ReadAll => {}
            }
            Ok(())
        }));
        match res {
            Ok(Ok(())) => {}
            Ok(Err(e)) => return Outcome::viol(format!("{}: {}", tag, e)),
            Err(p) => return Outcome::viol(format!("{}: operation panicked: {}", tag, crate::util::panic_msg(&p))),
        }
        if let Err(e) = compare(&format!("A after {}", tag), &a, &ma, n) {
            return Outcome::viol(e);
        }
        if let Err(e) = compare(&format!("B after {}", tag), &b, &mb, n) {
            return Outcome::viol(e);
        }
    }
    if mixed {
        class.push_str("+mixed");
    }
    if widened {
        class.push_str("+widened");
    }
    Outcome::pass(class, mixed || widened, json!({"n": n, "ops": c.ops.len(), "final_storage_a": format!("{:?}", a.storage)}))
}

fn scalar() -> impl Strategy<Value = f64> {
    prop_oneof![
        Just(0.0),
        Just(1.0),
        Just(-1.0),
        Just(0.5),
        Just(-2.0),
        Just(0.1),
        Just(-0.3),
        Just(1.0 / 3.0),
        (-64i32..=64).prop_map(|k| k as f64 / 16.0),
        // far below machine epsilon, far above: "all scalars" (a comparison with eps instead of 0 shows here)
        Just(1e-17),
        Just(-3e-20),
        Just(1e-300),
        Just(1099511627776.0),
        Just(-1.0 / 1099511627776.0),
    ]
}

fn op(n: usize) -> impl Strategy<Value = Op> {
    prop_oneof![
        3 => Just(Op::Add),
        3 => Just(Op::Sub),
        2 => Just(Op::AddAssign),
        2 => Just(Op::SubAssign),
        2 => Just(Op::SubAssignRef),
        2 => scalar().prop_map(Op::CompAdd),
        2 => scalar().prop_map(Op::CompSub),
        2 => scalar().prop_map(Op::CompMul),
        2 => scalar().prop_map(Op::CompMulMut),
        3 => Just(Op::Swap),
        3 => (0..n, 0..n, -40i16..=40).prop_map(|(i, j, v)| Op::Write(i, j, v)),
        2 => Just(Op::IsIdentity),
    ]
}

fn matspec(n: usize) -> impl Strategy<Value = MatSpec> {
    (0usize..CTORS.len(), 0..=n, 0..=n, proptest::collection::vec(-40i16..=40, n * n..=n * n), 0u8..8).prop_map(
        |(ci, ml, mu, mut vals, ident)| {
            // now and then produce an exact identity pattern in a non-Identity storage
            if ident == 0 {
                let n = (vals.len() as f64).sqrt() as usize;
                for i in 0..n {
                    for j in 0..n {
                        vals[i * n + j] = if i == j { 8 } else { 0 };
                    }
                }
            }
            MatSpec { ctor: CTORS[ci], ml, mu, vals }
        },
    )
}

pub fn strategy() -> BoxedStrategy<Case> {
    (1usize..=8)
        .prop_flat_map(|n| (Just(n), matspec(n), matspec(n), proptest::collection::vec(op(n), 0..=12)))
        .prop_map(|(n, a, b, ops)| Case { n, a, b, ops })
        .boxed()
}

/// exhaustive: every constructor x every (n, ml, mu) x every single op (with a fixed partner)
pub fn exhaustive(nmax: usize) -> Vec<Case> {
    let mut v = Vec::new();
    let ops = [
        Op::ReadAll,
        Op::Add,
        Op::Sub,
        Op::AddAssign,
        Op::SubAssign,
        Op::SubAssignRef,
        Op::CompAdd(0.0),
        Op::CompAdd(0.3),
        Op::CompAdd(1e-17),
        Op::CompSub(-3e-20),
        Op::CompSub(0.0),
        Op::CompSub(-1.5),
        Op::CompMul(0.0),
        Op::CompMul(-2.0),
        Op::CompMulMut(0.1),
        Op::IsIdentity,
    ];
    for n in 1..=nmax {
        let vals: Vec<i16> = (0..n * n).map(|k| ((k * 7 + 3) % 23) as i16 - 11).collect();
        let vals2: Vec<i16> = (0..n * n).map(|k| ((k * 5 + 1) % 19) as i16 - 9).collect();
        for &ca in CTORS.iter() {
            let banded_a = matches!(ca, Ctor::FromStorageBanded | Ctor::Banded);
            let la: Vec<(usize, usize)> = if banded_a { (0..=n).flat_map(|l| (0..=n).map(move |u| (l, u))).collect() } else { vec![(1, 1)] };
            for (ml, mu) in la {
                for &cb in &[Ctor::Identity, Ctor::FromVec, Ctor::Banded, Ctor::Diagonal, Ctor::Upper] {
                    let lb: Vec<(usize, usize)> = if cb == Ctor::Banded { vec![(0, 1), (2, 0), (n, n)] } else { vec![(0, 0)] };
                    for (ml2, mu2) in lb {
                        for o in ops.iter() {
                            v.push(Case {
                                n,
                                a: MatSpec { ctor: ca, ml, mu, vals: vals.clone() },
                                b: MatSpec { ctor: cb, ml: ml2, mu: mu2, vals: vals2.clone() },
                                ops: vec![o.clone()],
                            });
                        }
                    }
                }
            }
        }
    }
    v
}

pub fn run(ctx: &Ctx, known: &[Known]) -> Report {
    let (gen_cases, nmax) = match ctx.tier {
        Tier::Quick => (400_000, 5),
        Tier::Thorough => (8_000_000, 8),
    };
    let ex = exhaustive(nmax);
    let mut stats = run_list(&ex, &check, known);
    stats.exhaustive_part = Some(json!({"what": "every constructor x every (n<=nmax, ml, mu) x 5 partner storages x 14 single operations", "nmax": nmax, "cases": ex.len()}));
    if stats.violation.is_none() {
        let s2 = run_generated(ctx, "C17", "seq", &strategy, &check, gen_cases, known);
        merge(&mut stats, s2);
    }
    Report {
        id: "C17".into(),
        rule: "cases = (n in 1..8, two matrices built by any public constructor incl. both macros and filled through IndexMut with dyadic values, a sequence of <=12 operations from {+,-,+=,-=,-=&,component_add/sub/mul/mul_mut,swap,write,is_identity}); after every step every entry of both matrices is compared with a dense Vec<f64> model. Non-trivial = at least one binary operation combined operands of different storage kinds or two banded operands of different bandwidths. Distinct = distinct canonical JSON of the case.".into(),
        assumptions: vec!["numeric equality (==) of entries, so +0.0 and -0.0 are the same matrix entry".into(), "only square matrices (the property is about square Matrix values)".into()],
        min_nontrivial_frac: 0.2,
        stats,
        exhaustive: false,
    }
}
