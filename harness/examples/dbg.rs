use ivp::prelude::*;
use ivp::methods::RK4;
use ivp::solout::SolOut;
struct P;
impl IVP for P {
    fn ode(&self, x: f64, y: &[f64], dy: &mut [f64]) {
        dy[0] = -y[0] + x.sin(); dy[1] = y[0]-0.5*y[1];
    }
}
struct S;
impl SolOut for S {
    fn solout(&mut self, xold: f64, x: &mut f64, y: &mut [f64], ip: Option<&StepInterpolant<'_>>) -> ControlFlag {
        if let Some(ip)=ip { let mut a=vec![0.0;2]; ip.interpolate(*x,&mut a); let mut b=vec![0.0;2]; ip.interpolate(xold,&mut b);
          println!("xold={} x={} y={:?} I(x)={:?} I(xold)={:?} params={:?}",xold,x,y,a,b,ip.step_params()); }
        ControlFlag::Continue
    }
}
fn main(){
    let mut s=S;
    let r=RK4::builder().build().solve(&P,0.0,&[1.0,0.5],16.7237635,4.485,Some(&mut s)).unwrap();
    println!("{:?}",r.status);
}
