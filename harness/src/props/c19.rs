//! C19 — The SolOut callback protocol of the low-level solvers (histories).

use crate::engine::*;
use crate::gen::*;
use crate::instr::*;
use crate::lowlevel::*;
use crate::problems::*;
use crate::run::*;
use crate::util::*;
use ivp::prelude::Status;
use proptest::prelude::*;
use serde::{Deserialize, Serialize};
use serde_json::json;

#[derive(Serialize, Deserialize, Clone, Debug)]
pub enum Script {
    /// Interrupt at callback index pick(k, ncalls)
    Interrupt(u16),
    /// ModifiedSolution without touching the state at these callback indices
    Noop(Vec<u16>),
    /// double the state at one callback index (linear homogeneous problem, atol = 0)
    Double(u16),
    /// answer XOut (dense output on demand) at generated callbacks / print equidistantly, with the solver's dense_output
    /// flag default/true/false: same steps, valid interpolants, same interpolants as the Continue run
    XOut { dense: Option<bool>, replies: Vec<(u16, f64)>, every: Option<f64> },
}

#[derive(Serialize, Deserialize, Clone, Debug)]
pub struct Case {
    pub prob: ProbSpec,
    pub span: Span,
    pub method: Meth,
    pub rtol: f64,
    pub atol_rel: f64,
    pub first_step: Option<f64>,
    pub max_step: Option<f64>,
    pub analytic_jac: bool,
    pub script: Script,
}

struct Hist {
    recs: Vec<CbRec>,
    status: Status,
    ode_total: u64,
    accepted: usize,
}

fn run_hist(c: &Case, prob: &Prob, atol: f64, script: Vec<(usize, Act)>) -> Result<Hist, String> {
    let sp = &c.span;
    let none: Vec<EvSpec> = vec![];
    let mut instr = Instr::new(prob, &none);
    instr.dir = sp.dir();
    instr.use_jac = c.analytic_jac;
    instr.budget = 3_000_000;
    let lo = LowOpts {
        first_step: match c.method {
            Meth::RK4 => Some(c.first_step.unwrap_or(0.01).clamp(0.004, 0.02) * sp.len() * sp.dir()),
            _ => c.first_step.map(|f| f * sp.len()),
        },
        max_step: c.max_step.map(|f| f * sp.len()),
        identity_mass: true,
        ..Default::default()
    };
    let y0 = prob.y0();
    let mut so = RecSolOut::new(script);
    so.counter = Some(&instr.log);
    so.thetas = vec![0.5, 0.8];
    let r = guarded(|| solve_low(c.method, &instr, sp.x0, sp.xend, &y0, &Tol::S(c.rtol), &Tol::S(atol), &lo, &mut so))?;
    let r = r?;
    let log = instr.log.borrow();
    Ok(Hist { recs: so.recs, status: r.status, ode_total: log.ode_calls + log.ode_calls_in_jac, accepted: r.steps.accepted })
}

pub fn check(c: &Case) -> Outcome {
    let sp = &c.span;
    let prob = Prob::new(&c.prob, sp.x0, sp.xend);
    let doubling = matches!(c.script, Script::Double(_));
    let atol = if doubling { 0.0 } else { c.rtol * c.atol_rel };
    let base = match run_hist(c, &prob, atol, vec![]) {
        Ok(h) => h,
        Err(e) => return Outcome::triv(format!("undisturbed-run:{}", e.chars().take(40).collect::<String>())),
    };
    let name = c.method.name();
    let y0 = prob.y0();
    // ---- (1) protocol of the undisturbed run
    if base.recs.is_empty() {
        return Outcome::viol(format!("{}: SolOut was never called", name));
    }
    let r0 = &base.recs[0];
    if !(r0.xold.to_bits() == sp.x0.to_bits() && r0.x.to_bits() == sp.x0.to_bits() && bits_eq(&r0.y, &y0)) {
        return Outcome::viol(format!("{}: initial callback has xold={:e}, x={:e} (x0={:e}) or a state different from y0", name, r0.xold, r0.x, sp.x0));
    }
    for k in 1..base.recs.len() {
        let (p, r) = (&base.recs[k - 1], &base.recs[k]);
        let u = 4.0 * ulp(r.xold.abs().max(p.x.abs()).max(r.x.abs()));
        if (r.xold - p.x).abs() > u {
            return Outcome::viol(format!("{}: callback {} starts at xold={:e} but the previous one ended at x={:e} (gap {:e})", name, k, r.xold, p.x, r.xold - p.x));
        }
        if (r.x - r.xold) * sp.dir() <= 0.0 {
            return Outcome::viol(format!("{}: callback {} does not advance: xold={:e}, x={:e}", name, k, r.xold, r.x));
        }
        if !r.has_interp {
            return Outcome::viol(format!("{}: callback {} carries no interpolant", name, k));
        }
        // a time argument is only known to an ulp: the state moves by |f|*ulp(t) per ulp of time
        let mut fy = vec![0.0; r.y.len()];
        crate::instr::Rhs::f(&prob, r.x, &r.y, &mut fy);
        let mut fo = vec![0.0; r.y.len()];
        crate::instr::Rhs::f(&prob, p.x, &p.y, &mut fo);
        let tol = 1e-10 * (1.0 + inf_norm(&r.y).max(inf_norm(&p.y))) + 8.0 * inf_norm(&fy).max(inf_norm(&fo)) * ulp(r.x.abs().max(r.xold.abs()));
        if max_abs_diff(&r.at_xold, &p.y) > tol || max_abs_diff(&r.at_x, &r.y) > tol {
            return Outcome::viol(format!(
                "{}: interpolant of callback {} does not reproduce the step's end states: |I(xold)-y_prev|={:e}, |I(x)-y|={:e}",
                name, k, max_abs_diff(&r.at_xold, &p.y), max_abs_diff(&r.at_x, &r.y)
            ));
        }
        let (lo, hi) = (r.xold.min(r.x), r.xold.max(r.x));
        let ub = 4.0 * ulp(hi.abs().max(lo.abs()));
        if (r.bounds.0 - lo).abs() > ub || (r.bounds.1 - hi).abs() > ub {
            return Outcome::viol(format!("{}: interpolant bounds {:?} are not the step [{:e}, {:e}]", name, r.bounds, lo, hi));
        }
    }
    if base.recs.len() != base.accepted + 1 {
        return Outcome::viol(format!("{}: {} callbacks for {} accepted steps (expected accepted+1)", name, base.recs.len(), base.accepted));
    }
    // "passing an interpolant valid on that interval": inside the step it is as accurate as C07 demands of the
    // dense output (10 x the step-end errors + the C01 bound; RK4: + |y| (rate h)^4), for steps in the
    // asymptotic range h*rate <= 1
    if base.status == Status::Success {
        let rate = prob.rate_t();
        let kappa = prob.kappa();
        let ymax = base.recs.iter().fold(0.0f64, |m, r| m.max(inf_norm(&r.y)));
        let mut tolscale = atol + c.rtol * ymax;
        if c.method == Meth::RADAU {
            tolscale = tolscale.max(crate::props::c01::radau_internal_tolscale(&[c.rtol], &[atol], &[ymax]));
        }
        let errs: Vec<f64> = base.recs.iter().map(|r| max_abs_diff(&r.y, &prob.exact(r.x))).collect();
        for k in 1..base.recs.len() {
            let r = &base.recs[k];
            let h = (r.x - r.xold).abs();
            if rate * h > 1.0 || r.at_theta.len() != 2 {
                continue;
            }
            let interp_allow = if c.method == Meth::RK4 { ymax * (rate * h).powi(4) } else { crate::props::c01::C_BOUND * kappa * (base.accepted as f64) * tolscale };
            let floor = 64.0 * f64::EPSILON * (1.0 + ymax) * (base.recs.len() as f64).sqrt() + 8.0 * ulp(sp.x0.abs().max(sp.xend.abs())) * rate * ymax;
            let allow = 10.0 * errs[k - 1].max(errs[k]) + interp_allow + floor;
            for (th, v) in [0.5, 0.8].iter().zip(&r.at_theta) {
                let t = r.xold + th * (r.x - r.xold);
                let e = max_abs_diff(v, &prob.exact(t));
                if e > allow {
                    return Outcome::viol(format!("{}: the interpolant handed to callback {} of {} is off by {:e} at theta={} (t={:e}, h={:e}) while the step ends are accurate to {:e} / {:e} (allowed {:e})", name, k, base.recs.len() - 1, e, th, t, h, errs[k - 1], errs[k], allow));
                }
            }
        }
    }
    if base.status == Status::Success {
        let xl = base.recs.last().unwrap().x;
        if (xl - sp.xend).abs() > 1e-12 + 8.0 * tau(sp.x0, sp.xend, xl) {
            return Outcome::viol(format!("{}: Success but the last callback ended at {:e}, xend={:e}", name, xl, sp.xend));
        }
    } else {
        return Outcome::triv(format!("undisturbed-status:{}", status_name(base.status)));
    }
    let ncalls = base.recs.len();
    // ---- scripted behaviour
    match &c.script {
        Script::XOut { dense, replies, every } => {
            let x = crate::xoutrel::XCase { prob: c.prob.clone(), span: c.span.clone(), method: c.method, rtol: c.rtol, atol_rel: c.atol_rel, first_step: c.first_step, max_step: c.max_step, analytic_jac: c.analytic_jac, dense: *dense, replies: replies.clone(), every: *every };
            crate::xoutrel::check(&x, crate::xoutrel::Aspect::All)
        }
        Script::Interrupt(kk) => {
            let k = pick(*kk, ncalls);
            let h = match run_hist(c, &prob, atol, vec![(k, Act::Interrupt)]) {
                Ok(h) => h,
                Err(e) => return Outcome::viol(format!("{}: Interrupt at callback {}: {}", name, k, e)),
            };
            if h.status != Status::UserInterrupt {
                return Outcome::viol(format!("{}: Interrupt returned at callback {} but status is {}", name, k, status_name(h.status)));
            }
            if h.recs.len() != k + 1 {
                return Outcome::viol(format!("{}: Interrupt at callback {} but {} callbacks were made", name, k, h.recs.len()));
            }
            if h.recs.len() != h.accepted + 1 {
                return Outcome::viol(format!("{}: Interrupt at callback {}: {} accepted steps were reported to SolOut but steps.accepted={}", name, k, h.recs.len() - 1, h.accepted));
            }
            let at = h.recs[k].ode_calls_before;
            if h.ode_total != at {
                return Outcome::viol(format!("{}: {} right-hand-side evaluations were made after Interrupt was returned at callback {}", name, h.ode_total - at, k));
            }
            for j in 0..=k {
                if h.recs[j].x.to_bits() != base.recs[j].x.to_bits() || !bits_eq(&h.recs[j].y, &base.recs[j].y) {
                    return Outcome::viol(format!("{}: history before the Interrupt differs from the undisturbed run at callback {}", name, j));
                }
            }
            Outcome::pass(format!("{}:interrupt", name), k >= 1, json!({"callbacks": ncalls, "at": k}))
        }
        Script::Noop(ks) => {
            let mut idx: Vec<usize> = ks.iter().map(|k| pick(*k, ncalls)).collect();
            idx.sort();
            idx.dedup();
            let h = match run_hist(c, &prob, atol, idx.iter().map(|&k| (k, Act::Modify(1.0))).collect()) {
                Ok(h) => h,
                Err(e) => return Outcome::viol(format!("{}: no-op ModifiedSolution at {:?}: {}", name, idx, e)),
            };
            // BDF restarts its difference history after a modification, except at the initial call, where the
            // history consists of y0 and h*f(y0) only and an unchanged state must reproduce it exactly
            if c.method != Meth::BDF || idx == [0] {
                if h.status != base.status || h.recs.len() != ncalls {
                    return Outcome::viol(format!("{}: no-op ModifiedSolution at callbacks {:?} changed the run: {} callbacks/{} vs {}/{}", name, idx, h.recs.len(), status_name(h.status), ncalls, status_name(base.status)));
                }
                for j in 0..ncalls {
                    if h.recs[j].x.to_bits() != base.recs[j].x.to_bits() || !bits_eq(&h.recs[j].y, &base.recs[j].y) {
                        return Outcome::viol(format!("{}: no-op ModifiedSolution at callbacks {:?}: callback {} differs from the undisturbed run (x {:e} vs {:e}, |dy|={:e})", name, idx, j, h.recs[j].x, base.recs[j].x, max_abs_diff(&h.recs[j].y, &base.recs[j].y)));
                    }
                }
            } else {
                // documented history restart: agreement with the exact solution only
                if h.status != Status::Success {
                    return Outcome::triv(format!("bdf-restart-status:{}", status_name(h.status)));
                }
                let kappa = prob.kappa();
                let mut ymax: f64 = 0.0;
                for r in &h.recs {
                    ymax = ymax.max(inf_norm(&r.y));
                }
                let tolscale = atol + c.rtol * ymax;
                let bound = crate::props::c01::C_BOUND * kappa * (h.recs.len() as f64) * tolscale + 1e-11 * (1.0 + ymax);
                for r in &h.recs {
                    let e = max_abs_diff(&r.y, &prob.exact(r.x));
                    if e > bound {
                        return Outcome::viol(format!("BDF: after no-op ModifiedSolution at {:?} the error at x={:e} is {:e} > bound {:e}", idx, r.x, e, bound));
                    }
                }
            }
            Outcome::pass(format!("{}:noop", name), idx.iter().any(|&k| k >= 1), json!({"callbacks": ncalls, "at": idx}))
        }
        Script::Double(kk) => {
            let k = pick(*kk, ncalls);
            let h = match run_hist(c, &prob, atol, vec![(k, Act::Modify(2.0))]) {
                Ok(h) => h,
                Err(e) => return Outcome::viol(format!("{}: doubling at callback {}: {}", name, k, e)),
            };
            if !c.method.implicit() {
                if h.status != base.status || h.recs.len() != ncalls {
                    return Outcome::viol(format!("{}: doubling the state at callback {} changed the step sequence: {} callbacks/{} vs {}/{}", name, k, h.recs.len(), status_name(h.status), ncalls, status_name(base.status)));
                }
                for j in 0..ncalls {
                    let (a, b) = (&h.recs[j], &base.recs[j]);
                    let want: Vec<f64> = if j > k { b.y.iter().map(|v| 2.0 * v).collect() } else { b.y.clone() };
                    if a.x.to_bits() != b.x.to_bits() || !bits_eq(&a.y, &want) {
                        return Outcome::viol(format!(
                            "{}: after doubling the state at callback {} callback {} is not exactly {} the undisturbed one (x {:e} vs {:e}; max |y - expected| = {:e})",
                            name, k, j, if j > k { "twice" } else { "equal to" }, a.x, b.x, max_abs_diff(&a.y, &want)
                        ));
                    }
                }
            } else {
                // exact form for the implicit methods at the initial call: the run in which the callback returns
                // ModifiedSolution with the state untouched goes through the same start as the one that doubles it, and with
                // atol = 0, a linear homogeneous problem and the analytic Jacobian every quantity the solver forms from the
                // written state scales by the exact factor 2 (error and Newton norms are relative to the state): same steps
                // bit for bit, states exactly doubled.  (At a later callback the Newton starting values are extrapolated from
                // the previous step's polynomial, which belongs to the state before the callback: only tolerance-level there.)
                if c.analytic_jac && k == 0 {
                    if let Ok(h1) = run_hist(c, &prob, atol, vec![(k, Act::Modify(1.0))]) {
                        if h1.status != h.status || h1.recs.len() != h.recs.len() {
                            return Outcome::viol(format!("{}: doubling the state at callback {} instead of leaving it unchanged (ModifiedSolution both times) changed the step sequence: {} callbacks/{} vs {}/{}", name, k, h.recs.len(), status_name(h.status), h1.recs.len(), status_name(h1.status)));
                        }
                        for j in 0..h.recs.len() {
                            let (a, b) = (&h.recs[j], &h1.recs[j]);
                            let want: Vec<f64> = if j > k { b.y.iter().map(|v| 2.0 * v).collect() } else { b.y.clone() };
                            if a.x.to_bits() != b.x.to_bits() || !bits_eq(&a.y, &want) {
                                return Outcome::viol(format!(
                                    "{}: after doubling the state at callback {} callback {} is not exactly {} the run whose callback returned ModifiedSolution with the state unchanged (x {:e} vs {:e}; max |y - expected| = {:e})",
                                    name, k, j, if j > k { "twice" } else { "equal to" }, a.x, b.x, max_abs_diff(&a.y, &want)
                                ));
                            }
                        }
                    }
                }
                if h.status != Status::Success {
                    return Outcome::triv(format!("implicit-double-status:{}", status_name(h.status)));
                }
                // solution after k is 2x exact, to tolerance
                let mut ymax: f64 = 0.0;
                for r in &h.recs {
                    ymax = ymax.max(inf_norm(&r.y));
                }
                let bound = crate::props::c01::C_BOUND * prob.kappa() * (h.recs.len() as f64) * c.rtol * ymax + 1e-11 * (1.0 + ymax);
                for (j, r) in h.recs.iter().enumerate() {
                    let ex = prob.exact(r.x);
                    let want: Vec<f64> = if j > k { ex.iter().map(|v| 2.0 * v).collect() } else { ex };
                    let e = max_abs_diff(&r.y, &want);
                    if e > bound {
                        return Outcome::viol(format!("{}: after doubling at callback {} the state at callback {} (x={:e}) is off by {:e} > bound {:e}", name, k, j, r.x, e, bound));
                    }
                }
            }
            Outcome::pass(format!("{}:double", name), k >= 1, json!({"callbacks": ncalls, "at": k}))
        }
    }
}

fn decaying_real_spec(nmax: usize) -> BoxedStrategy<ProbSpec> {
    // linear homogeneous, components never cross zero: independent real modes, optional warp
    (warp(0.5, 6.0), proptest::collection::vec((fr(-1.5, 0.15), fr(0.2, 2.0), any::<bool>()), 1..=nmax))
        .prop_map(|(warp, v)| ProbSpec { blocks: v.into_iter().map(|(lam, u, s)| Block::Real { lam, u0: if s { u } else { -u } }).collect(), warp, mix: None, mag2: 0 })
        .boxed()
}

pub fn strategy() -> BoxedStrategy<Case> {
    let common = || (span_mid(), any_method(), fr(3.0, 8.0), fr(-3.0, 0.0), proptest::option::weighted(0.3, log10(-3.0, -0.5)), proptest::option::weighted(0.2, log10(-1.5, 0.0)), any::<bool>());
    let general = (prob_spec(5, 0.5, 8.0), common(), prop_oneof![4 => any::<u16>().prop_map(Script::Interrupt), 4 => proptest::collection::vec(any::<u16>(), 1..5).prop_map(Script::Noop), 1 => Just(Script::Noop(vec![0])),
        2 => (prop_oneof![Just(None), Just(Some(true)), Just(Some(false)), Just(Some(false))], proptest::collection::vec((any::<u16>(), prop_oneof![3 => fr(0.0, 0.3), 1 => Just(0.0), 1 => Just(2.0), 1 => fr(-0.5, 0.0), 1 => Just(1e300)]), 0..5), proptest::option::weighted(0.5, fr(0.02, 0.4))).prop_map(|(dense, replies, every)| Script::XOut { dense, replies, every })]);
    let lin = (decaying_real_spec(4), common(), any::<u16>().prop_map(Script::Double));
    let mk = |(prob, (span, method, re, ar, first_step, max_step, analytic_jac), script): (ProbSpec, (Span, Meth, f64, f64, Option<f64>, Option<f64>, bool), Script)| Case {
        prob,
        span,
        method,
        rtol: 10f64.powf(-re),
        atol_rel: 10f64.powf(ar),
        first_step,
        max_step,
        analytic_jac,
        script,
    };
    // exact grids: dyadic span, first_step = max_step = span / 2^m and a loose tolerance, so that every step has the
    // maximal length and the last one lands on xend without being shortened
    let exact = (linear_spec(3, false, 0.3, 1.5), prop_oneof![Just(0.0), Just(1.0), Just(2.0), Just(-1.0), Just(-3.0)], -2i32..=3, 1i32..=4, any::<bool>(), any_method(), any::<bool>(), any::<u16>())
        .prop_map(|(prob, x0, j, m, back, method, analytic_jac, k)| {
            let len = 2f64.powi(j);
            let frac = 2f64.powi(-m);
            Case { prob, span: Span { x0, xend: if back { x0 - len } else { x0 + len } }, method, rtol: 1e-2, atol_rel: 1.0, first_step: Some(frac), max_step: Some(frac), analytic_jac, script: Script::Interrupt(k) }
        });
    // a first step (and step bound) longer than the whole interval: the solver has to land on xend at once
    let overlong = (prob_spec(3, 0.3, 2.0), common(), fr(1.05, 3.0), fr(1.0, 1.5)).prop_map(|(prob, (span, method, re, ar, _fs, _ms, analytic_jac), f, g)| Case {
        prob,
        span,
        method,
        // loose tolerances (1e-3..1e-5.5), so that the single long step is usually accepted
        rtol: 10f64.powf(-(3.0 + (re - 3.0) * 0.5)),
        atol_rel: 10f64.powf(ar),
        first_step: Some(f),
        max_step: Some(f * g),
        analytic_jac,
        script: Script::Noop(vec![0]),
    });
    prop_oneof![10 => general.prop_map(mk), 5 => lin.prop_map(mk), 1 => exact, 2 => overlong].boxed()
}

pub fn run(ctx: &Ctx, known: &[Known]) -> Report {
    let cases = match ctx.tier {
        Tier::Quick => 150_000,
        Tier::Thorough => 1_000_000,
    };
    let stats = run_generated(ctx, "C19", "gen", &strategy, &check, cases, known);
    Report {
        id: "C19".into(),
        rule: "histories = one of the six low-level solvers driven directly with a recording SolOut on a closed-form problem (both directions, tolerances 1e-3..1e-8, optional first_step/max_step, analytic or FD Jacobian), first undisturbed, then with a scripted callback: Interrupt at a generated callback index (0 = initial call), ModifiedSolution with an untouched state at 1..4 generated indices, or doubling of the state at one index (independent real linear modes, atol = 0; explicit methods: exactly twice the undisturbed run; Radau / BDF: to tolerance twice the exact solution, and, with the analytic Jacobian and the doubling at the initial call, exactly twice the run whose initial callback returns ModifiedSolution with the state unchanged), or XOut answers (generated abscissae at generated callbacks, or equidistant printing) with the solver's dense_output flag default/true/false, compared with the Continue run (same steps bit for bit, interpolants valid at both ends and identical inside). Non-trivial = a non-Continue flag returned at a callback index >= 1. Distinct = distinct canonical JSON.".into(),
        assumptions: vec![
            "interpolant end-point agreement to 1e-10*(1+|y|)".into(),
            "BDF restarts its history on ModifiedSolution (documented): only agreement with the exact solution is required for BDF no-op, and for Radau/BDF doubling".into(),
            "a non-Success undisturbed run makes the case trivial".into(),
        ],
        min_nontrivial_frac: 0.5,
        stats,
        exhaustive: false,
    }
}
