#!/usr/bin/env bash
# tools/validate_seed.sh Cxx V  -- confirm a seeded change in the scratch worktree /tmp/wt-Cxx:
#   demo passes on the unchanged tree, patch applies, whole suite passes with it, demo fails with it.
# On success the change is stored as /verif/seeded/Cxx-V/{patch.diff,demo.*,meta.json}.
set -u
id="$1"; v="$2"
SO="${SEEDSRC:-/tmp/seed-out}"; src="$SO/$id/$v"; wt="${WTPREFIX:-/tmp/wt-}$id"; out="/verif/seeded/$id-$v"
log="$src/validate.log"; : > "$log"
export CARGO_NET_OFFLINE=true
head=$(git -C /repo rev-parse HEAD)
git -C "$wt" checkout -q --detach "$head" 2>>"$log" || { echo "$id-$v: cannot checkout"; exit 2; }
git -C "$wt" reset -q --hard "$head"; rm -f "$wt/tests/seed_demo.rs"
run_demo() {  # returns 0 if the demo passes
  if [ -f "$src/demo.rs" ]; then
    cp "$src/demo.rs" "$wt/tests/seed_demo.rs"
    ( cd "$wt" && cargo test --offline --test seed_demo >>"$log" 2>&1 ); rc=$?
    rm -f "$wt/tests/seed_demo.rs"; return $rc
  else
    ( cd "$wt" && cargo build --features python --lib --offline >>"$log" 2>&1 ) || return 3
    mkdir -p "$wt/pyext" && cp "$wt/target/debug/libivp.so" "$wt/pyext/ivp.abi3.so"
    ( cd "$src" && PYTHONPATH="$wt/pyext" python3-vt demo.py >>"$log" 2>&1 ); return $?
  fi
}
echo "== baseline demo" >>"$log"; run_demo; base=$?
if ! git -C "$wt" apply "$src/patch.diff" 2>>"$log"; then
  git -C "$wt" apply --3way "$src/patch.diff" >>"$log" 2>&1 || { echo "$id-$v: PATCH DOES NOT APPLY to $head"; git -C "$wt" reset -q --hard "$head"; exit 1; }
  git -C "$wt" reset -q
fi
git -C "$wt" diff -- src > $src/patch.current.diff
echo "== suite with patch" >>"$log"
( cd "$wt" && cargo test --workspace --no-fail-fast --offline >>"$log" 2>&1 ); suite=$?
echo "== demo with patch" >>"$log"; run_demo; mut=$?
git -C "$wt" reset -q --hard "$head"; rm -rf "$wt/pyext"
verdict="rejected"
if [ $base -eq 0 ] && [ $suite -eq 0 ] && [ $mut -ne 0 ]; then verdict="confirmed"; fi
echo "$id-$v: baseline_demo_rc=$base suite_with_patch_rc=$suite demo_with_patch_rc=$mut => $verdict"
if [ "$verdict" = confirmed ]; then
  mkdir -p "$out"
  cp $src/patch.current.diff "$out/patch.diff"
  [ -f "$src/demo.rs" ] && cp "$src/demo.rs" "$out/demo.rs"; [ -f "$src/demo.py" ] && cp "$src/demo.py" "$out/demo.py"
  python3 - "$src/meta.json" "$out/meta.json" "$id" "$v" "$head" "$base" "$suite" "$mut" <<'PY'
import json,sys
src,dst,pid,v,head,base,suite,mut=sys.argv[1:]
try: m=json.load(open(src))
except Exception: m={}
meta={"property":pid,"variant":v,"breaks":pid,"summary":m.get("summary",""),"needs":m.get("needs",""),"files":m.get("files",[]),
 "author":"independent sub-agent given only the property text and a scratch worktree",
 "confirmed_on_repo_head":head,
 "ran":["baseline: demo on the unchanged tree (cargo test --offline --test seed_demo / python3-vt demo.py) -> rc %s (must be 0)"%base,
        "git apply patch.diff; cargo test --workspace --no-fail-fast --offline -> rc %s (must be 0: existing suite still passes)"%suite,
        "demo with the change applied -> rc %s (must be non-zero)"%mut],
 "sub_agent_ran":m.get("ran",[])}
json.dump(meta,open(dst,"w"),indent=1)
PY
fi
