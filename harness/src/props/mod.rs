pub mod c06;
pub mod c03;
pub mod c16;
pub mod c17;
pub mod c18;
pub mod c12;
pub mod c11;
pub mod c19;
