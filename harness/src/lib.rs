#![allow(dead_code)]
//! Verification harness for Ryan-D-Gast/ivp (library part: shared by the `vf` binary and the fuzz targets)
pub mod engine;
pub mod evgen;
pub mod gen;
pub mod instr;
pub mod lowlevel;
pub mod problems;
pub mod props;
pub mod pycase;
pub mod run;
pub mod stiff;
pub mod trees;
pub mod util;

use proptest::strategy::{Strategy, ValueTree};
use proptest::test_runner::{Config, RngAlgorithm, TestRng, TestRunner};

/// Fuzz entry: the bytes are used as the random stream of proptest's generators (pass-through RNG),
/// so coverage-guided mutation of the bytes mutates the generated case structurally.  Returns
/// Some((case json, message)) on a violation that is not a listed known finding.
pub fn fuzz_one(id: &str, data: &[u8]) -> Option<(String, String)> {
    use engine::Outcome;
    fn go<C: serde::Serialize + std::fmt::Debug>(data: &[u8], strat: proptest::strategy::BoxedStrategy<C>, check: &(dyn Fn(&C) -> Outcome + Sync), known_keys: &[&str]) -> Option<(String, String)> {
        let rng = TestRng::from_seed(RngAlgorithm::PassThrough, data);
        let mut runner = TestRunner::new_with_rng(Config { failure_persistence: None, ..Config::default() }, rng);
        let tree = strat.new_tree(&mut runner).ok()?;
        let case = tree.current();
        match engine::eval(check, &case) {
            Outcome::Violation { key, msg } if !known_keys.contains(&key.as_str()) => Some((serde_json::to_string_pretty(&case).unwrap(), msg)),
            _ => None,
        }
    }
    match id {
        "C03" => go(data, props::c03::strategy(), &props::c03::check, &[]),
        "C04" => go(data, props::c04::strategy(), &props::c04::check, &[]),
        "C05" => go(data, props::c05::strategy(), &props::c05::check, &[]),
        "C16" => go(data, props::c16::strategy(), &props::c16::check, &[]),
        "C17" => go(data, props::c17::strategy(), &props::c17::check, &[]),
        _ => None,
    }
}
