use vf::instr::*; use vf::problems::*; use vf::props::c09::*; use vf::run::*; use vf::evgen::*;
fn main() {
    let f = std::env::args().nth(1).unwrap();
    let v: serde_json::Value = serde_json::from_str(&std::fs::read_to_string(f).unwrap()).unwrap();
    let c: Case = serde_json::from_value(v["case"].clone()).unwrap();
    let sp = &c.span;
    let prob = Prob::new(&c.prob, sp.x0, sp.xend);
    let plain = phase1(&c, &prob).unwrap();
    println!("plain t = {:?}", plain.t);
    let resolved = resolve(&c, &plain);
    for (e, ts) in &resolved { println!("ev {:?} root at {:e}", e, ts); }
    let evs: Vec<EvSpec> = resolved.iter().map(|(e, _)| EvSpec { g: e.g.clone(), dir: e.dir, terminal: None }).collect();
    let mut instr = Instr::new(&prob, &evs); instr.dir = sp.dir(); instr.use_jac = c.analytic_jac;
    if let RunResult::Ok(s) = solve(&instr, sp.x0, sp.xend, &prob.y0(), &opts(&c, prob.n, true, None)) {
        println!("t = {:?}\nt_events = {:?}", s.t, s.t_events);
        for (t, y) in s.t.iter().zip(&s.y) { println!("g({:e}) = {:e}", t, evs[0].g.g(*t, y)); }
    }
}
