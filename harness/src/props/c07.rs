//! C07 — Dense output is accurate to the interpolant's order inside every step.

use crate::engine::*;
use crate::gen::*;
use crate::instr::*;
use crate::lowlevel::*;
use crate::problems::*;
use crate::run::*;
use crate::util::*;
use ivp::prelude::Status;
use proptest::prelude::*;
use serde::{Deserialize, Serialize};
use serde_json::json;

#[derive(Serialize, Deserialize, Clone, Debug)]
pub enum Case {
    /// one step from exact data, interpolant probed on a theta grid, h refined five times
    Slope { prob: ProbSpec, x0: f64, back: bool, method: Meth },
    /// a full run: dense solution at generated interior points vs the neighbouring step ends
    Full { prob: ProbSpec, span: Span, method: Meth, rtol: f64, atol_rel: f64, rk4_steps: f64, thetas: Vec<f64>, analytic_jac: bool, #[serde(default)] terminal_at: Option<f64> },
    /// low-level run whose callback answers XOut (dense output on demand): inside every step the handed interpolant is
    /// the one of the undisturbed run
    XOut(crate::xoutrel::XCase),
    /// low-level DOPRI5 / DOP853 run whose stiffness test runs on every `cadence`-th accepted step (solve_ivp's fixed
    /// cadence of 1000 puts that code path out of reach of short runs): the interpolant of every step, the tested ones
    /// included, is as accurate as the step ends
    Stiff { prob: ProbSpec, span: Span, dop853: bool, rtol: f64, atol_rel: f64, cadence: usize, thetas: Vec<f64> },
}

fn interp_order(m: Meth) -> usize {
    match m {
        Meth::RK4 | Meth::RK23 | Meth::RADAU => 3,
        Meth::DOPRI5 => 4,
        Meth::DOP853 => 7,
        Meth::BDF => 0,
    }
}

fn check_slope(spec: &ProbSpec, x0: f64, back: bool, m: Meth) -> Outcome {
    let d = if back { -1.0 } else { 1.0 };
    let prob = Prob::new(spec, x0, x0 + d);
    let rate = prob.rate_t().max(1e-3);
    let q = interp_order(m);
    let (hr0, ratio): (f64, f64) = match m {
        Meth::DOP853 => (1.0, std::f64::consts::SQRT_2),
        Meth::DOPRI5 => (0.45, std::f64::consts::SQRT_2),
        _ => (0.3, 2.0),
    };
    let h0 = (hr0 / rate).min(0.25);
    let thetas: Vec<f64> = (1..20).map(|k| k as f64 / 20.0).collect();
    let none: Vec<EvSpec> = vec![];
    let mut lh = vec![];
    let mut le = vec![];
    let mut errs = vec![];
    for j in 0..5 {
        let h = d * h0 / ratio.powi(j);
        let mut instr = Instr::new(&prob, &none);
        instr.use_jac = true;
        instr.dir = d;
        let y0 = prob.exact(x0);
        let lo = LowOpts { first_step: Some(h), newton_tol: if m == Meth::RADAU { Some(1e-20) } else { None }, newton_maxiter: if m == Meth::RADAU { Some(40) } else { None }, identity_mass: true, ..Default::default() };
        let mut so = RecSolOut::new(vec![]);
        so.thetas = thetas.clone();
        let big = Tol::S(1e3);
        let r = match guarded(|| solve_low(m, &instr, x0, x0 + h, &y0, &big, &big, &lo, &mut so)) {
            Ok(Ok(r)) => r,
            _ => continue,
        };
        if r.status != Status::Success || so.recs.len() != 2 || r.steps.rejected != 0 {
            continue;
        }
        let rec = &so.recs[1];
        let mut e: f64 = 0.0;
        let mut ymax: f64 = 0.0;
        for (th, v) in thetas.iter().zip(&rec.at_theta) {
            let ex = prob.exact(x0 + th * h);
            e = e.max(max_abs_diff(v, &ex));
            ymax = ymax.max(inf_norm(&ex));
        }
        let floor = 64.0 * f64::EPSILON * (1.0 + ymax) + 8.0 * ulp(x0.abs() + 1.0) * rate * ymax;
        errs.push(e);
        if e > 100.0 * floor && e < 1e-2 {
            lh.push(h.abs().log2());
            le.push(e.log2());
        }
    }
    if lh.len() < 3 {
        return Outcome::triv(format!("{}:fewer-than-3-usable-points", m.name()));
    }
    let k = lh.len();
    let slope = ls_slope(&lh[k - 3..], &le[k - 3..]);
    // calibrated allowances, see run()
    let need = match m {
        Meth::DOP853 => 8.0 - 1.5,
        Meth::DOPRI5 => 5.0 - 0.7,
        _ => 4.0 - 0.5,
    };
    if slope < need {
        return Outcome::viol(format!("{}: interpolation error inside one step converges with slope {:.2} < {:.1} (interpolant order {} => O(h^{}); max-over-theta errors {:?})", m.name(), slope, need, q, q + 1, errs));
    }
    Outcome::pass(format!("{}:slope", m.name()), true, json!({"slope": slope, format!("slope_deficit_{}", m.name()): (q as f64 + 1.0) - slope}))
}

fn check_full(spec: &ProbSpec, sp: &Span, m: Meth, rtol: f64, atol_rel: f64, rk4_steps: f64, thetas: &[f64], analytic_jac: bool, terminal_at: Option<f64>) -> Outcome {
    let d = sp.dir();
    let prob = Prob::new(spec, sp.x0, sp.xend);
    let n = prob.n;
    let mut evs = vec![EvSpec { g: Ev::Const { v: 1.0 }, dir: 0, terminal: None }];
    if let Some(f) = terminal_at {
        // a terminal event inside a step: the dense output must also be right on the last, partial step
        evs.push(EvSpec { g: Ev::Time { c: sp.x0 + f * (sp.xend - sp.x0) }, dir: 0, terminal: Some(1) });
    }
    let mut instr = Instr::new(&prob, &evs);
    instr.dir = d;
    instr.use_jac = analytic_jac;
    instr.rec_ev = true;
    let atol = rtol * atol_rel;
    let o = RunOpts { method: m, rtol: Tol::S(rtol), atol: Tol::S(atol), first_step: if m == Meth::RK4 { Some((sp.xend - sp.x0) / rk4_steps) } else { None }, max_step: None, max_steps: None, t_eval: None, dense: true };
    let sol = match solve(&instr, sp.x0, sp.xend, &prob.y0(), &o) {
        RunResult::Ok(s) => s,
        other => return Outcome::triv(format!("run:{}", other.describe().chars().take(30).collect::<String>())),
    };
    let stopped = terminal_at.is_some() && sol.status == Status::UserInterrupt;
    if sol.status != Status::Success && !stopped {
        return Outcome::triv(format!("status:{}", status_name(sol.status)));
    }
    let log = instr.take_log();
    let idx = step_end_calls(&log.ev_t, d);
    if idx.len() < 3 {
        return Outcome::triv("fewer-than-2-steps");
    }
    let mut grid: Vec<f64> = idx.iter().map(|&k| log.ev_t[k]).collect();
    let mut eend: Vec<f64> = idx.iter().map(|&k| max_abs_diff(&log.ev_y[k], &prob.exact(log.ev_t[k]))).collect();
    if stopped {
        // the covered span ends at the event: the last "step" is the part of the final step up to the event point
        let te = *sol.t.last().unwrap();
        let ee = max_abs_diff(sol.y.last().unwrap(), &prob.exact(te));
        while grid.len() > 1 && (*grid.last().unwrap() - te) * d >= 0.0 {
            grid.pop();
            eend.pop();
        }
        grid.push(te);
        eend.push(ee);
        if grid.len() < 3 {
            return Outcome::triv("fewer-than-2-steps");
        }
    }
    let ymax = idx.iter().fold(0.0f64, |mm, &k| mm.max(inf_norm(&log.ev_y[k])));
    let mut tolscale = atol + rtol * ymax;
    if m == Meth::RADAU {
        // the cubic collocation interpolant is held to RADAU5's internal tolerance 0.1*tol^(2/3)
        tolscale = tolscale.max(crate::props::c01::radau_internal_tolscale(&[rtol], &[atol], &[ymax]));
    }
    let kappa = prob.kappa();
    let rate = prob.rate_t();
    let mut worst: f64 = 0.0;
    let mut worst_bdf: f64 = 0.0;
    let mut skipped = 0usize;
    let mut probed = 0usize;
    let mut batch: Vec<(f64, f64)> = vec![]; // (time, allowed error) of every probe
    for i in 0..grid.len() - 1 {
        let h = grid[i + 1] - grid[i];
        // a lower-order interpolant is only comparable to the step ends in the asymptotic range
        if rate * h.abs() > 1.0 {
            skipped += 1;
            continue;
        }
        probed += 1;
        // fixed-step RK4 has no tolerance: its cubic Hermite interpolant adds O(h^4) per step
        // error-controlled methods: the C01 bound (a lower-order interpolant is only tolerance-accurate
        // in that sense: e.g. Radau's cubic interpolant has error ~ tol^(2/3) inside a step)
        let interp_allow = if m == Meth::RK4 { ymax * (rate * h.abs()).powi(4) } else { crate::props::c01::C_BOUND * kappa * (sol.naccpt as f64) * tolscale };
        let floor = 64.0 * f64::EPSILON * (1.0 + ymax) * (grid.len() as f64).sqrt() + 8.0 * ulp(sp.x0.abs().max(sp.xend.abs())) * rate * ymax;
        let mut bdf_nb = 0.0;
        let mut allow = 10.0 * eend[i].max(eend[i + 1]) + interp_allow + floor;
        if m == Meth::BDF {
            // "for BDF it matches the accuracy of the step itself": the interpolant is the method's own polynomial, so
            // inside a step it is as accurate as the neighbouring step ends and the local tolerance, not merely as the
            // accumulated bound
            let lo = i.saturating_sub(1);
            let hi = (i + 2).min(eend.len() - 1);
            let nb = eend[lo..=hi].iter().cloned().fold(0.0, f64::max);
            // (largest interior error / (neighbouring step-end errors + tolerance scale) seen over 2.5e4 BDF runs: 0.995)
            allow = 3.0 * (nb + tolscale) + floor;
            bdf_nb = nb + tolscale + floor;
        }
        for th in thetas {
            let t = grid[i] + th * h;
            let v = match sol.sol(t) {
                Ok(v) => v,
                Err(e) => return Outcome::viol(format!("{}: sol({:e}) inside step [{:e},{:e}] failed: {}", m.name(), t, grid[i], grid[i + 1], e)),
            };
            let e = max_abs_diff(&v, &prob.exact(t));
            batch.push((t, allow));
            worst = worst.max(e / allow);
            if bdf_nb > 0.0 {
                worst_bdf = worst_bdf.max(e / bdf_nb);
            }
            if e > allow {
                return Outcome::viol(format!(
                    "{}: dense output at t={:e} (theta={:.3} of step {} of {}, h={:e}) is off by {:e} while the step ends are accurate to {:e} / {:e} (allowed {:e}; rtol={:e})",
                    m.name(), t, th, i, grid.len() - 1, h, e, eend[i], eend[i + 1], allow, rtol
                ));
            }
        }
    }
    let _ = n;
    // the same points through the batch interface, against the direction of integration and in a scattered
    // order: "anywhere in the span" must not depend on the order in which the points are asked for
    if batch.len() >= 2 {
        let mut rev = batch.clone();
        rev.reverse();
        let mut scat = batch.clone();
        let m2 = scat.len();
        scat = (0..m2).map(|k| scat[(k * 7919 + 3) % m2]).collect();
        for (what, order) in [("against the direction of integration", rev), ("in scattered order", scat)] {
            let ts: Vec<f64> = order.iter().map(|p| p.0).collect();
            match sol.sol_many(&ts) {
                Ok(vs) => {
                    for ((t, allow), v) in order.iter().zip(&vs) {
                        let e = max_abs_diff(v, &prob.exact(*t));
                        if e > *allow {
                            return Outcome::viol(format!("{}: sol_many queried {} returns a value off by {:e} at t={:e} (allowed {:e}; the same point through sol() is within the bound)", m.name(), what, e, t, allow));
                        }
                    }
                }
                Err(e) => return Outcome::viol(format!("{}: sol_many failed for points inside accepted steps: {}", m.name(), e)),
            }
        }
    }
    if probed == 0 {
        return Outcome::triv("all-steps-outside-asymptotic-range");
    }
    Outcome::pass(format!("{}:full", m.name()), probed >= 3, json!({"steps": grid.len() - 1, "steps_probed": probed, "steps_skipped_h_rate_gt_1": skipped, "interior_err_over_allowed": worst, "bdf_interior_over_neighbours_plus_tol": worst_bdf}))
}

fn check_stiff(spec: &ProbSpec, sp: &Span, dop853: bool, rtol: f64, atol_rel: f64, cadence: usize, thetas: &[f64]) -> Outcome {
    let m = if dop853 { Meth::DOP853 } else { Meth::DOPRI5 };
    let d = sp.dir();
    let prob = Prob::new(spec, sp.x0, sp.xend);
    let none: Vec<EvSpec> = vec![];
    let mut instr = Instr::new(&prob, &none);
    instr.dir = d;
    let atol = rtol * atol_rel;
    let lo = LowOpts { stiff_test: Some(cadence), dense: Some(true), ..Default::default() };
    let mut so = RecSolOut::new(vec![]);
    so.thetas = thetas.to_vec();
    let r = match guarded(|| solve_low(m, &instr, sp.x0, sp.xend, &prob.y0(), &Tol::S(rtol), &Tol::S(atol), &lo, &mut so)) {
        Ok(Ok(r)) => r,
        _ => return Outcome::triv("run-failed"),
    };
    // a run that gives up as "probably stiff" still handed over valid steps up to there
    if so.recs.len() < 3 {
        return Outcome::triv("fewer-than-2-steps");
    }
    let ymax = so.recs.iter().fold(0.0f64, |mm, r| mm.max(inf_norm(&r.y)));
    let tolscale = atol + rtol * ymax;
    let kappa = prob.kappa();
    let rate = prob.rate_t();
    let nacc = (so.recs.len() - 1) as f64;
    let eend: Vec<f64> = so.recs.iter().map(|r| max_abs_diff(&r.y, &prob.exact(r.x))).collect();
    let mut worst: f64 = 0.0;
    let mut probed = 0usize;
    let mut tested = 0usize;
    for i in 1..so.recs.len() {
        let rec = &so.recs[i];
        let h = rec.x - rec.xold;
        if rate * h.abs() > 1.0 || !rec.has_interp {
            continue;
        }
        probed += 1;
        if i % cadence == 0 {
            tested += 1;
        }
        let floor = 64.0 * f64::EPSILON * (1.0 + ymax) * nacc.sqrt() + 8.0 * ulp(sp.x0.abs().max(sp.xend.abs())) * rate * ymax;
        let allow = 10.0 * eend[i - 1].max(eend[i]) + crate::props::c01::C_BOUND * kappa * nacc * tolscale + floor;
        for (th, v) in thetas.iter().zip(&rec.at_theta) {
            let t = rec.xold + th * h;
            let e = max_abs_diff(v, &prob.exact(t));
            worst = worst.max(e / allow);
            if e > allow {
                return Outcome::viol(format!(
                    "{} (stiffness test every {} accepted steps): the interpolant of step {} of {} at t={:e} (theta={:.3}, h={:e}) is off by {:e} while the step ends are accurate to {:e} / {:e} (allowed {:e}; rtol={:e})",
                    m.name(), cadence, i, so.recs.len() - 1, t, th, h, e, eend[i - 1], eend[i], allow, rtol
                ));
            }
        }
    }
    if probed == 0 {
        return Outcome::triv("all-steps-outside-asymptotic-range");
    }
    Outcome::pass(format!("{}:stiff-cadence:{}", m.name(), status_name(r.status)), tested >= 1, json!({"steps": so.recs.len() - 1, "steps_probed": probed, "steps_with_stiffness_test": tested, "interior_err_over_allowed": worst}))
}

pub fn check(c: &Case) -> Outcome {
    match c {
        Case::Stiff { prob, span, dop853, rtol, atol_rel, cadence, thetas } => check_stiff(prob, span, *dop853, *rtol, *atol_rel, *cadence, thetas),
        Case::Slope { prob, x0, back, method } => check_slope(prob, *x0, *back, *method),
        Case::Full { prob, span, method, rtol, atol_rel, rk4_steps, thetas, analytic_jac, terminal_at } => check_full(prob, span, *method, *rtol, *atol_rel, *rk4_steps, thetas, *analytic_jac, *terminal_at),
        Case::XOut(x) => crate::xoutrel::check(x, crate::xoutrel::Aspect::Inside),
    }
}

pub fn strategy() -> BoxedStrategy<Case> {
    let five = prop_oneof![Just(Meth::RK4), Just(Meth::RK23), Just(Meth::DOPRI5), Just(Meth::DOP853), Just(Meth::RADAU)];
    prop_oneof![
        1 => (linear_spec(3, true, 0.5, 3.0), fr(-2.0, 2.0), any::<bool>(), five).prop_map(|(mut prob, x0, back, method)| {
            if prob.blocks.len() > 2 { prob.blocks.truncate(2); }
            Case::Slope { prob, x0, back, method }
        }),
        2 => (prob_spec(5, 0.5, 8.0), prop_oneof![12 => span_mid().boxed(), 1 => span_tiny().boxed()], any_method(), log10(-9.0, -3.0), log10(-3.0, 0.0), fr(20.3, 200.9), proptest::collection::vec(fr(0.02, 0.98), 1..5), any::<bool>(), proptest::option::weighted(0.2, fr(0.2, 0.95)))
            .prop_map(|(prob, span, method, rtol, atol_rel, rk4_steps, thetas, analytic_jac, terminal_at)| Case::Full { prob, span, method, rtol, atol_rel, rk4_steps, thetas, analytic_jac, terminal_at }),
        1 => crate::xoutrel::strategy().prop_map(Case::XOut),
        1 => (prob_spec(5, 0.5, 8.0), span_mid(), any::<bool>(), log10(-9.0, -3.0), log10(-3.0, 0.0), 1usize..6, proptest::collection::vec(fr(0.02, 0.98), 1..5))
            .prop_map(|(prob, span, dop853, rtol, atol_rel, cadence, thetas)| Case::Stiff { prob, span, dop853, rtol, atol_rel, cadence, thetas }),
    ]
    .boxed()
}

pub fn run(ctx: &Ctx, known: &[Known]) -> Report {
    let cases = match ctx.tier {
        Tier::Quick => 30_000,
        Tier::Thorough => 1_000_000,
    };
    let stats = run_generated(ctx, "C07", "gen", &strategy, &check, cases, known);
    Report {
        id: "C07".into(),
        rule: "two kinds of cases: (1) one step from exact data of an autonomous linear closed-form problem with the step interpolant probed at 19 interior thetas, step refined five times (factor 2, sqrt 2 for DOPRI5/DOP853), slope of the max-over-theta error fitted on the three smallest usable steps (RK4, RK23, DOPRI5, DOP853, Radau with fully converged Newton; both signs of h); (2) full solve_ivp runs of all six methods on general (non-autonomous, nonlinear, mixed) closed-form problems with dense output: Solution::sol at 1..4 generated interior positions of every accepted step against the exact solution (steps with h*rate > 1 skipped), allowed 10 x the larger error of the two neighbouring step ends + the C01 bound 100*kappa*naccpt*tolscale (RK4: + |y|(rate*h)^4) + rounding floor. RK4 uses a step that does not divide the span; (3) low-level runs whose SolOut callback answers ControlFlag::XOut (arbitrary abscissae at arbitrary callbacks, or equidistant printing), with the solver's dense_output flag default/true/false: every interpolant handed over is, at three interior thetas, bit-identical to the interpolant of the same step in the run whose callback answers Continue. (4) low-level DOPRI5 / DOP853 runs with the stiffness test on every 1st..5th accepted step (solve_ivp fixes the cadence at 1000, so the code that runs between the step update and the dense-output preparation is otherwise reached only by runs of >= 1000 steps): the interpolant handed to the callback at 1..4 interior thetas of every step against the exact solution, same allowance as (2). Non-trivial = a verdict from >= 3 usable refinements, or a run with >= 3 accepted steps. Distinct = distinct canonical JSON.".into(),
        assumptions: vec!["slope thresholds RK4/RK23/Radau 3.5, DOPRI5 4.3, DOP853 6.5".into(), "the interior allowance is relative to the neighbouring step-end errors, so algorithm-inherent step-end inaccuracies (C01 finding K1) do not raise an alarm here".into()],
        min_nontrivial_frac: 0.5,
        stats,
        exhaustive: false,
    }
}
