pub mod c16;
pub mod c17;
