use ivp::prelude::*;
struct P;
impl IVP for P {
    fn ode(&self, _x: f64, y: &[f64], d: &mut [f64]) { d[0] = if y[0].abs() > 1.5136014 { f64::NAN } else { -9.7e10 }; }
}
fn main() {
    for (xend, fs) in [(4e-12, Some(8e-12)), (4e-12, None), (4.0, Some(8.0))] {
        let o = Options::builder().method(Method::DOP853).rtol(5e-7).atol(3e-8).maybe_first_step(fs).dense_output(true).t_eval(vec![0.0, 0.5*xend, xend]).build();
        let r = solve_ivp(&P, 0.0, xend, &[-1.5136], o).unwrap();
        println!("xend {:e} fs {:?}: status {:?} nfev {} naccpt {} nrejct {} t {:?} y {:?}", xend, fs, r.status, r.nfev, r.naccpt, r.nrejct, r.t, r.y);
    }
}
