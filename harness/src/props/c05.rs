//! C05 — t_eval: exactly the requested times, with the interpolated values.

use crate::engine::*;
use crate::evgen::*;
use crate::gen::*;
use crate::instr::*;
use crate::problems::*;
use crate::props::c09;
use crate::run::*;
use crate::util::*;
use ivp::prelude::{Solution, Status};
use proptest::prelude::*;
use serde::{Deserialize, Serialize};
use serde_json::json;

#[derive(Serialize, Deserialize, Clone, Debug)]
pub struct Case {
    /// recipes: event functions (terminal or not); may be empty
    pub base: c09::Case,
    pub t_eval: Vec<Place>,
    /// step budget as a fraction of the plain run's step count
    pub budget: Option<f64>,
    /// the system has no components (y0 empty): every requested time is still reported, with empty states
    #[serde(default)]
    pub empty_state: bool,
}

struct NoState;
impl Rhs for NoState {
    fn dim(&self) -> usize {
        0
    }
    fn f(&self, _t: f64, _y: &[f64], _dy: &mut [f64]) {}
}

fn check_empty(c: &Case) -> Outcome {
    let sp = &c.base.span;
    let te = resolve_places(&c.t_eval, &[sp.x0, sp.xend], sp);
    let none: Vec<EvSpec> = vec![];
    let rhs = NoState;
    let name = c.base.method.name();
    let mut first: Option<Solution> = None;
    for dense in [false, true] {
        let instr = Instr::new(&rhs, &none);
        let o = RunOpts { method: c.base.method, rtol: Tol::S(1e-6), atol: Tol::S(1e-9), first_step: None, max_step: None, max_steps: None, t_eval: Some(te.clone()), dense };
        let s = match solve(&instr, sp.x0, sp.xend, &[], &o) {
            RunResult::Ok(s) => s,
            other => return Outcome::viol(format!("{}: a system with no components and t_eval of {} times gives {}", name, te.len(), other.describe())),
        };
        if s.status != Status::Success {
            return Outcome::viol(format!("{}: a system with no components ends with {}", name, status_name(s.status)));
        }
        if !bits_eq(&s.t, &te) {
            return Outcome::viol(format!("{}: system with no components: reported times differ from t_eval: {} reported, {} requested (reported {:?})", name, s.t.len(), te.len(), &s.t[..s.t.len().min(4)]));
        }
        if s.y.len() != s.t.len() || s.y.iter().any(|r| !r.is_empty()) {
            return Outcome::viol(format!("{}: system with no components: {} state rows for {} times, or a non-empty row", name, s.y.len(), s.t.len()));
        }
        if let Some(f) = &first {
            if !bits_eq(&f.t, &s.t) {
                return Outcome::viol(format!("{}: system with no components: samples depend on dense_output", name));
            }
        }
        first = Some(s);
    }
    Outcome::pass(format!("{}:no-components", name), te.len() >= 2, json!({"t_eval_points": te.len()}))
}

fn run_one(c: &Case, prob: &Prob, evs: &[EvSpec], te: &[f64], dense: bool, max_steps: Option<usize>) -> Result<(Solution, Log), String> {
    let sp = &c.base.span;
    let mut all = vec![EvSpec { g: Ev::Const { v: 1.0 }, dir: 0, terminal: None }];
    all.extend(evs.iter().cloned());
    let mut instr = Instr::new(prob, &all);
    instr.dir = sp.dir();
    instr.use_jac = c.base.analytic_jac;
    instr.rec_ev = true;
    let mut o = c09::opts(&c.base, prob.n, dense, Some(te.to_vec()));
    o.max_steps = max_steps;
    match solve(&instr, sp.x0, sp.xend, &prob.y0(), &o) {
        RunResult::Ok(s) => Ok((s, instr.take_log())),
        other => Err(other.describe()),
    }
}

pub fn check(c: &Case) -> Outcome {
    if c.empty_state {
        return check_empty(c);
    }
    let sp = &c.base.span;
    let d = sp.dir();
    let prob = Prob::new(&c.base.prob, sp.x0, sp.xend);
    let n = prob.n;
    let plain = match c09::phase1(&c.base, &prob) {
        Ok(p) => p,
        Err(e) => return Outcome::triv(format!("plain-run:{}", e)),
    };
    let grid = &plain.t;
    let te = resolve_places(&c.t_eval, grid, sp);
    if te.is_empty() {
        return Outcome::triv("empty-t_eval");
    }
    let evs: Vec<EvSpec> = c09::resolve(&c.base, &plain).into_iter().map(|(e, _)| e).collect();
    let max_steps = c.budget.map(|f| ((plain.nstep as f64) * f).ceil().max(1.0) as usize);
    let (sol, log) = match run_one(c, &prob, &evs, &te, true, max_steps) {
        Ok(x) => x,
        Err(e) => return Outcome::viol(format!("plain run Ok but the run with t_eval gives {}", e)),
    };
    let (sol_nd, _) = match run_one(c, &prob, &evs, &te, false, max_steps) {
        Ok(x) => x,
        Err(e) => return Outcome::viol(format!("run with t_eval and dense_output=false gives {}", e)),
    };
    let name = format!("{} {}", c.base.method.name(), status_name(sol.status));
    // (e) independent of dense_output
    if sol.status != sol_nd.status || !bits_eq(&sol.t, &sol_nd.t) || !bits_eq2(&sol.y, &sol_nd.y) {
        return Outcome::viol(format!("{}: reported samples depend on dense_output ({} vs {} samples)", name, sol.t.len(), sol_nd.t.len()));
    }
    // accepted step ends of this run (strictly monotone prefix of the events() call times)
    let steps: Vec<f64> = step_end_calls(&log.ev_t, d).into_iter().map(|k| log.ev_t[k]).collect();
    let tolt = 1e-12;
    let mut early = false;
    let expected: Vec<f64>;
    let mut extra_last = false;
    match sol.status {
        Status::Success => {
            expected = te.clone();
        }
        Status::UserInterrupt => {
            early = true;
            let ts = match sol.t.last() {
                Some(t) => *t,
                None => return Outcome::viol(format!("{}: no samples", name)),
            };
            // the stop is the terminal event point: it must be listed as an event
            let listed = sol.t_events.iter().skip(1).any(|v| v.last().map(|t| t.to_bits() == ts.to_bits()).unwrap_or(false));
            if !listed {
                return Outcome::viol(format!("{}: the final sample t={:e} is not a reported event", name, ts));
            }
            extra_last = true;
            let must: Vec<f64> = te.iter().copied().filter(|t| (t - ts) * d <= 0.0).collect();
            // "none beyond it": the event point is a located time, and the handler flushes the requested times up to it with
            // zero slack.  The only way a requested time beyond it is legitimately present is the handler's 1e-12
            // resolution at a step end: a time that close behind the end of an *earlier* accepted step was reported with
            // that step, before the event (located in the next step, at or just after that step end) was known.
            let slack = tolt + tau(sp.x0, sp.xend, ts);
            let may: Vec<f64> = te
                .iter()
                .copied()
                .filter(|t| (t - ts) * d <= 0.0 || ((t - ts) * d <= slack && steps.iter().any(|s| (s - ts) * d <= 0.0 && (t - s).abs() <= slack)))
                .collect();
            let got = &sol.t[..sol.t.len() - 1];
            if got.len() < must.len() || got.len() > may.len() || !bits_eq(got, &may[..got.len()]) {
                return Outcome::viol(format!(
                    "{}: stopped by a terminal event at {:e}: {} requested times are due (<= stop), {} reported before the event point; first requested {:?}, reported {:?}",
                    name, ts, must.len(), got.len(), &te[..te.len().min(6)], &got[..got.len().min(6)]
                ));
            }
            expected = got.to_vec();
        }
        _ => {
            early = true;
            let ts = *steps.last().unwrap_or(&sp.x0);
            let must: Vec<f64> = te.iter().copied().filter(|t| (t - ts) * d <= 0.0).collect();
            let may: Vec<f64> = te.iter().copied().filter(|t| (t - ts) * d <= tolt + tau(sp.x0, sp.xend, ts)).collect();
            if sol.t.len() < must.len() || sol.t.len() > may.len() || !bits_eq(&sol.t, &may[..sol.t.len()]) {
                return Outcome::viol(format!("{}: run stopped after the step ending at {:e}: {} requested times are due, {} reported", name, ts, must.len(), sol.t.len()));
            }
            expected = sol.t.clone();
        }
    }
    // (a) exactly the requested times, bit for bit, in order
    let got_t = if extra_last { &sol.t[..sol.t.len() - 1] } else { &sol.t[..] };
    if !bits_eq(got_t, &expected) {
        let k = got_t.iter().zip(&expected).position(|(a, b)| a.to_bits() != b.to_bits()).unwrap_or(got_t.len().min(expected.len()));
        return Outcome::viol(format!("{}: reported times differ from t_eval: {} reported, {} requested; first difference at index {} ({:?} vs {:?})", name, got_t.len(), expected.len(), k, got_t.get(k), expected.get(k)));
    }
    // (d') requested times placed on the *located* event and just beyond it (1e-13, 5e-13: inside the handler's 1e-12
    // resolution) when no accepted step end is near: the output times asked for do not move the steps or the event, so
    // the same stop is found again, the time equal to it is reported and the two beyond it are not
    if sol.status == Status::UserInterrupt {
        let ts = *sol.t.last().unwrap();
        let u = ulp(ts.abs());
        let (d1, d2) = ((1e-13f64).max(2.0 * u), (5e-13f64).max(4.0 * u));
        let far_from_steps = !steps.iter().any(|s| (s - ts).abs() <= 4e-12 + 16.0 * u);
        let inside = (ts - sp.x0) * d > 0.0 && (sp.xend - (ts + d * d2)) * d > 0.0;
        if far_from_steps && inside && d2 <= 1e-12 {
            let mut te2 = te.clone();
            te2.extend_from_slice(&[ts, ts + d * d1, ts + d * d2]);
            te2.sort_by(|a, b| (a * d).partial_cmp(&(b * d)).unwrap());
            if let Ok((s2, _)) = run_one(c, &prob, &evs, &te2, true, max_steps) {
                let want: Vec<f64> = te2.iter().copied().filter(|t| (t - ts) * d <= 0.0).collect();
                let ok = s2.status == Status::UserInterrupt && s2.t.last().map(|t| t.to_bits()) == Some(ts.to_bits()) && s2.t.len() == want.len() + 1 && bits_eq(&s2.t[..want.len()], &want);
                if !ok {
                    return Outcome::viol(format!(
                        "{}: terminal event located at {:e} strictly inside a step; with the requested times {:e}, {:e} (= event + 1e-13, + 5e-13 in the direction of integration) added, the run reports {} samples ending {:?} (status {}) instead of the {} requested times <= the event followed by the event point",
                        name, ts, ts + d * d1, ts + d * d2, s2.t.len(), &s2.t[s2.t.len().saturating_sub(3)..], status_name(s2.status), want.len()
                    ));
                }
            }
        }
    }
    // (b) values = step interpolant, (c) accuracy
    let mut lmax: f64 = 0.0;
    let mut dy = vec![0.0; n];
    for (t, y) in plain.t.iter().zip(&plain.y) {
        crate::instr::Rhs::f(&prob, *t, y, &mut dy);
        lmax = lmax.max(inf_norm(&dy));
    }
    let mut ymax: f64 = 0.0;
    for y in &plain.y {
        ymax = ymax.max(inf_norm(y));
    }
    let mut tolscale = c.base.atol.fit(n).max() + c.base.rtol.fit(n).max() * ymax;
    if c.base.method == Meth::RADAU {
        // Radau's dense output is a cubic held to RADAU5's internal tolerance 0.1*tol^(2/3) (C07: order 3; C01 finding K3)
        let (rt, at) = (c.base.rtol.fit(n), c.base.atol.fit(n));
        let rv: Vec<f64> = (0..n).map(|j| rt.at(j)).collect();
        let av: Vec<f64> = (0..n).map(|j| at.at(j)).collect();
        tolscale = tolscale.max(crate::props::c01::radau_internal_tolscale(&rv, &av, &vec![ymax; n]));
    }
    let nacc = plain.naccpt.max(1) as f64;
    // (the time-rounding floor is per step, as in C01: every step's length is rounded to the spacing of the time axis)
    let acc_bound = crate::props::c01::C_BOUND * prob.kappa() * nacc * tolscale + 64.0 * f64::EPSILON * (1.0 + ymax) * nacc.sqrt() + lmax * 8.0 * ulp(sp.x0.abs().max(sp.xend.abs())) * nacc;
    let mut near_grid = 0usize;
    let mut dups = 0usize;
    for (i, t) in got_t.iter().enumerate() {
        if i > 0 && got_t[i - 1] == *t {
            dups += 1;
        }
        let yi = &sol.y[i];
        if yi.len() != n {
            return Outcome::viol(format!("{}: sample {} has dimension {}", name, i, yi.len()));
        }
        let near = steps.iter().any(|g| (g - t).abs() <= 2e-12 + tau(sp.x0, sp.xend, *t));
        let interior_near = steps.iter().skip(1).any(|g| (g - t).abs() <= 1e-9 * (1.0f64).max(g.abs() / 64.0) * 1.01);
        if interior_near {
            near_grid += 1;
        }
        if sol.sol_span().is_none() {
            // a run stopped by its step budget before the first accepted step has no dense span (C12 takes the
            // same view); the only reportable time is x0 and its value is y0
            if !bits_eq(yi, &prob.y0()) {
                return Outcome::viol(format!("{}: no step was accepted, yet the value reported at {:e} is not y0", name, t));
            }
            continue;
        }
        match sol.sol(*t) {
            Ok(v) => {
                if !near {
                    if !bits_eq(&v, yi) {
                        return Outcome::viol(format!("{}: value reported at requested time {:e} is not the step interpolant there (max diff {:e})", name, t, max_abs_diff(&v, yi)));
                    }
                } else {
                    let lim = lmax * 4e-12 + 64.0 * f64::EPSILON * (1.0 + inf_norm(yi)) + lmax * 8.0 * ulp(t.abs().max(sp.x0.abs()));
                    if max_abs_diff(&v, yi) > lim {
                        return Outcome::viol(format!("{}: value reported at requested time {:e} (within 2e-12 of a step end) differs from the interpolant by {:e} > {:e}", name, t, max_abs_diff(&v, yi), lim));
                    }
                }
            }
            Err(e) => return Outcome::viol(format!("{}: sol({:e}) failed for a reported requested time: {}", name, t, e)),
        }
        // accuracy "of C01/C07": C07's order statement holds in the asymptotic range, so samples inside
        // steps that are long compared with the solution's time scale (h*rate > 1) are not judged
        let coarse = steps.windows(2).any(|w| (t - w[0]) * d >= 0.0 && (w[1] - t) * d >= 0.0 && prob.rate_t() * (w[1] - w[0]).abs() > 1.0);
        if plain.status == Status::Success && c.base.method == Meth::RK4 && !coarse && plain.t.len() >= 2 {
            // fixed-step RK4 has no tolerance: C07's statement for its cubic Hermite interpolant, relative to the
            // errors at the two ends of the step containing t (10 x those + |y| (rate h)^4)
            let m = plain.t.len();
            let i = (0..m - 1).find(|&i| (t - plain.t[i]) * d >= 0.0 && (plain.t[i + 1] - t) * d >= 0.0).unwrap_or(m - 2);
            let e0 = max_abs_diff(&plain.y[i], &prob.exact(plain.t[i]));
            let e1 = max_abs_diff(&plain.y[i + 1], &prob.exact(plain.t[i + 1]));
            let h = (plain.t[i + 1] - plain.t[i]).abs();
            let allow = 10.0 * e0.max(e1) + ymax * (prob.rate_t() * h).powi(4) + 64.0 * f64::EPSILON * (1.0 + ymax) * (m as f64).sqrt() + lmax * 8.0 * ulp(sp.x0.abs().max(sp.xend.abs()));
            let err = max_abs_diff(&prob.exact(*t), yi);
            if err > allow {
                return Outcome::viol(format!("{}: value at requested time {:e} (step {} of {}, h={:e}) is off the exact solution by {:e} while the step ends are accurate to {:e} / {:e} (allowed {:e})", name, t, i, m - 1, h, err, e0, e1, allow));
            }
        }
        if plain.status == Status::Success && c.base.method != Meth::RK4 && !coarse {
            let ex = prob.exact(*t);
            let err = max_abs_diff(&ex, yi);
            if err > acc_bound {
                let msg = format!("{}: value at requested time {:e} is off the exact solution by {:e} > bound {:e} (kappa {:.2}, naccpt {}, tolscale {:e})", name, t, err, acc_bound, prob.kappa(), plain.naccpt, tolscale);
                // C01's known finding K1 (the embedded estimate vanishes at an isolated step size: one over-long step is
                // accepted with a local error far above the tolerance) shows here as well when the accepted-step ends of
                // the plain run themselves leave the bound at such a step; same signature as in C01
                let e: Vec<f64> = plain.t.iter().zip(&plain.y).map(|(tt, yy)| max_abs_diff(yy, &prob.exact(*tt))).collect();
                let hs = |i: usize| (plain.t[i] - plain.t[i - 1]).abs();
                // the shorter of the two steps before step i
                let hp = |i: usize| if i >= 3 { hs(i - 1).min(hs(i - 2)) } else { hs(i - 1) };
                // (never at the last reported step: a state mislabelled as xend would look like an over-long last step; C01
                // checks there that the right-hand side was really evaluated at the step end)
                let last = plain.t.len() - 1;
                let k1 = match e.iter().position(|v| *v > acc_bound) {
                    Some(1) => last > 1 && prob.rate_t() * hs(1) > 1.0,
                    Some(i) if i >= 2 && i < last => hs(i) >= 2.5 * hp(i) && e[i - 1] <= 0.1 * acc_bound,
                    _ => false,
                } || (2..last).any(|i| hs(i) >= 2.5 * hp(i) && e[i] - e[i - 1] >= 0.5 * acc_bound);
                if k1 {
                    return Outcome::viol_key("C01-overlong-step", msg);
                }
                return Outcome::viol(msg);
            }
        }
    }
    let class = format!("{}:{}{}", c.base.method.name(), status_name(sol.status), if near_grid > 0 { ":near-grid" } else { "" });
    Outcome::pass(class, near_grid > 0 || dups > 0 || early, json!({"requested": te.len(), "reported": sol.t.len(), "near_grid": near_grid, "duplicates": dups, "early_stop": early, "steps": steps.len().saturating_sub(1)}))
}

pub fn strategy() -> BoxedStrategy<Case> {
    (prob_spec(4, 0.5, 8.0), prop_oneof![14 => span_mid().boxed(), 1 => span_tiny().boxed(), 1 => span_far().boxed()], any_method(), tols(4, 3.0, 9.0), any::<bool>(), proptest::option::weighted(0.2, log10(-1.5, 0.0)))
        .prop_flat_map(|(mut prob, span, method, tol, aj, ms)| {
            if span.x0.abs() > 1e4 {
                prob.warp.k = 0;
            }
            let n: usize = prob.blocks.iter().map(|b| b.dim()).sum();
            (
                Just((prob, span, method, tol, aj, ms)),
                prop_oneof![3 => Just(vec![]).boxed(), 2 => recipes(n, 3, 0.6).boxed()],
                places(24),
                proptest::option::weighted(0.15, fr(0.1, 0.9)),
                proptest::collection::vec(0u8..200, 4..=4),
            )
        })
        .prop_map(|((prob, span, method, (rtol, atol), analytic_jac, max_step), mut recipes, t_eval, budget, coins)| {
            let empty_state = coins[3] >= 197;
            let coins: Vec<u8> = coins.iter().map(|c| c % 10).collect();
            for (q, r) in recipes.iter_mut().enumerate() {
                if r.terminal.is_some() && coins[q % 4] < 8 {
                    r.terminal = Some(1);
                    r.dir = 0;
                }
            }
            Case { base: c09::Case { prob, span, method, rtol, atol, analytic_jac, max_step, recipes, first_step: None }, t_eval, budget, empty_state }
        })
        .boxed()
}

pub fn run(ctx: &Ctx, known: &[Known]) -> Report {
    let cases = match ctx.tier {
        Tier::Quick => 40_000,
        Tier::Thorough => 1_500_000,
    };
    let stats = run_generated(ctx, "C05", "gen", &strategy, &check, cases, known);
    Report {
        id: "C05".into(),
        rule: "two-phase cases: a plain dense run gives the accepted-step grid; up to 24 requested times are placed on it (a grid point, +-1e-13 / 5e-13 / 2e-12 / 1e-9 beside one, mid-step, span fractions, x0, xend, duplicates by coincidence of anchors), sorted in the direction of integration; variants with 1..3 event functions (terminal or not) and with a step budget; six methods, both directions; every case runs with dense_output on and off. Oracle: (a) bitwise equality with t_eval under Success, (b) value = Solution::sol of the dense twin (bit-identical away from step ends), (c) accuracy bound against the exact solution for samples in steps with h*rate <= 1, (d) completeness / no overshoot on early stop with the terminal point as the only extra entry (after a terminal event: the requested times <= the event time, and beyond it only one that lies within the handler's 1e-12 resolution of an earlier accepted step end; after a step budget: up to 1e-12 beyond the last step end), (d') after a stop at a terminal event located away from every step end, the run is repeated with the event time itself and two times 1e-13 / 5e-13 beyond it added to t_eval: the first is reported, the other two are not; (e) independence of dense_output. Non-trivial = a requested time within 1e-9 of an interior step end, or a duplicate, or an early stop. Distinct = distinct canonical JSON.".into(),
        assumptions: vec![
            "requested times within 2e-12 (twice the handler's documented resolution) of a step end may carry the stored state or the neighbouring segment's value: compared with max|f|*4e-12 slack".into(),
            "accuracy bound C * kappa * naccpt * tolscale with the constant of C01".into(),
        ],
        min_nontrivial_frac: 0.5,
        stats,
        exhaustive: false,
    }
}
