use std::time::Instant;
fn main(){
    for (name,data) in [("zeros10", vec![0u8;10]), ("ff200", vec![0xffu8;200]), ("mixed", (0..300u32).map(|i| (i*37%251) as u8).collect::<Vec<u8>>()), ("empty", vec![])] {
        let t=Instant::now();
        let r=vf::fuzz_one("C16", &data);
        println!("{} -> {:?} in {:?}", name, r.map(|x| x.1), t.elapsed());
    }
}
