//! C03 — Interval discipline and honest status.

use crate::engine::*;
use crate::gen::*;
use crate::instr::*;
use crate::problems::*;
use crate::run::*;
use crate::util::*;
use ivp::prelude::Status;
use proptest::prelude::*;
use serde::{Deserialize, Serialize};
use serde_json::json;

#[derive(Serialize, Deserialize, Clone, Debug)]
pub enum MaxStep {
    None,
    Inf,
    /// span / k exactly
    Div(u32),
    /// span * factor
    Rel(f64),
}

#[derive(Serialize, Deserialize, Clone, Debug)]
pub struct Case {
    pub prob: ProbSpec,
    pub span: Span,
    /// integrate towards +-infinity; a terminal event at intrinsic time theta stops the run
    pub infinite: bool,
    pub method: Meth,
    pub rtol: Tol,
    pub atol: Tol,
    /// first_step = factor * |span| (sign as given)
    pub first_step: Option<f64>,
    pub max_step: MaxStep,
    pub t_eval: Option<Vec<f64>>,
    pub dense: bool,
    pub events: Vec<EvSpec>,
    pub max_steps: Option<usize>,
    /// the right-hand side turns non-finite from a time inside the span (`at` = fraction) or outside a
    /// ball in state space: the run must end without Success and with a valid prefix
    #[serde(default)]
    pub fault: Option<Fault>,
}

pub fn check(c: &Case) -> Outcome {
    let sp = &c.span;
    let d = sp.dir();
    let (x0, xend_fin) = (sp.x0, sp.xend);
    let xend = if c.infinite { d * f64::INFINITY } else { xend_fin };
    let prob = Prob::new(&c.prob, x0, xend);
    let n = prob.n;
    let len = if c.infinite { c.prob.warp.theta } else { sp.len() };
    // events: always a constant (never crossing) function first => one `events` call per accepted step
    let mut evs = vec![EvSpec { g: Ev::Const { v: 1.0 }, dir: 0, terminal: None }];
    let fin_span = Span { x0, xend: x0 + d * len };
    evs.extend(resolve_events(&c.events, &fin_span));
    if c.infinite {
        evs.push(EvSpec { g: Ev::Time { c: x0 + d * len }, dir: 0, terminal: Some(1) });
    }
    let real_events = evs.len() > 1;
    let mut instr = Instr::new(&prob, &evs);
    instr.dir = d;
    instr.rec_ev = true;
    instr.fault = c.fault.as_ref().map(|f| match f {
        Fault::From { at, v } => Fault::From { at: x0 + at * d * len, v: *v },
        Fault::CompFrom { at, i, v } => Fault::CompFrom { at: x0 + at * d * len, i: *i, v: *v },
        other => other.clone(),
    });
    instr.budget = 3_000_000;
    let first_step = c.first_step.map(|f| f * len);
    let max_step = match &c.max_step {
        MaxStep::None => None,
        MaxStep::Inf => Some(f64::INFINITY),
        MaxStep::Div(k) => Some(len / (*k as f64)),
        MaxStep::Rel(f) => Some(len * f),
    };
    let t_eval = if c.infinite { None } else { c.t_eval.as_ref().map(|f| fracs_to_times(sp, f)) };
    let opts = RunOpts {
        method: c.method,
        rtol: c.rtol.fit(n),
        atol: c.atol.fit(n),
        first_step,
        max_step,
        max_steps: c.max_steps,
        t_eval: t_eval.clone(),
        dense: c.dense,
    };
    let y0 = prob.y0();
    let res = solve(&instr, x0, xend, &y0, &opts);
    let log = instr.take_log();
    let sol = match res {
        RunResult::Ok(s) => s,
        RunResult::Err(e) => {
            // RK4 documents that the step must have the sign of the direction
            return Outcome::triv(format!("err:{}", e.split(':').next().unwrap_or("")));
        }
        RunResult::Panic(m) => return Outcome::triv(format!("panic(owned by C04): {}", m.chars().take(40).collect::<String>())),
        RunResult::Budget => return Outcome::triv("budget(owned by C04)"),
    };
    if std::env::var_os("VF_DEBUG").is_some() {
        eprintln!("C03-DEBUG status {:?} nfev {} nstep {} naccpt {} nrejct {}\n t = {:?}\n y = {:?}\n step ends = {:?}", sol.status, sol.nfev, sol.nstep, sol.naccpt, sol.nrejct, sol.t, sol.y, log.ev_t);
    }
    if c.method == Meth::RK4 && !sol.y.iter().all(|y| all_finite(y)) {
        // fixed-step RK4 has no error control: once the (faulty or unstable) right-hand side has produced
        // non-finite states, event functions and interpolants are NaN and nothing more is claimed (C04: it terminates)
        return Outcome::triv("rk4-non-finite-states");
    }
    let tslack = |t: f64| tau(x0, xend, t);
    let desc = format!("{} {}", c.method.name(), status_name(sol.status));

    // ---- shapes
    if sol.t.len() != sol.y.len() {
        return Outcome::viol(format!("{}: t.len()={} != y.len()={}", desc, sol.t.len(), sol.y.len()));
    }
    if let Some((i, yi)) = sol.y.iter().enumerate().find(|(_, yi)| yi.len() != n) {
        return Outcome::viol(format!("{}: y[{}] has dimension {} != {}", desc, i, yi.len(), n));
    }
    if sol.t_events.len() != evs.len() || sol.y_events.len() != evs.len() {
        return Outcome::viol(format!("{}: t_events/y_events have {} / {} entries for {} event functions", desc, sol.t_events.len(), sol.y_events.len(), evs.len()));
    }
    // ---- start, monotonicity, range
    if t_eval.is_none() {
        if sol.t.is_empty() || sol.t[0].to_bits() != x0.to_bits() {
            return Outcome::viol(format!("{}: first sample {:?} is not x0={:e}", desc, sol.t.first(), x0));
        }
        if !bits_eq(&sol.y[0], &y0) {
            return Outcome::viol(format!("{}: first state is not y0", desc));
        }
    }
    let m = sol.t.len();
    for (k, w) in sol.t.windows(2).enumerate() {
        let strictly = (w[1] - w[0]) * d > 0.0;
        // requested duplicates / terminal point on a requested time
        let mut dup_ok = t_eval.is_some() && w[1] == w[0];
        // a terminal event located exactly on the previous step end (|g| <= root tolerance there;
        // C09: "an exact zero at an endpoint may be reported from either adjacent step") repeats
        // that sample as the final entry: same time, same state
        // (the state is the previous one up to the rounding of the interpolant evaluated at that time)
        if k + 2 == m && sol.status == Status::UserInterrupt && w[1] == w[0] {
            // (a root within the root finder's time tolerance of the step end is located "at" it: same time after
            // rounding, state different by at most |f| * xtol)
            let mut fk = vec![0.0; n];
            crate::instr::Rhs::f(&prob, w[0], &sol.y[k], &mut fk);
            let slack = 4.0 * inf_norm(&fk) * (2e-12 + 4.0 * f64::EPSILON * w[0].abs());
            let close = sol.y[k].iter().zip(&sol.y[k + 1]).all(|(a, b)| (a - b).abs() <= 1e-10 * (1.0 + a.abs()) + slack);
            if close {
                dup_ok = true;
            }
        }
        if !(strictly || dup_ok) {
            return Outcome::viol(format!("{}: sample times not strictly monotone in the direction of integration: {:e} then {:e} (d={})", desc, w[0], w[1], d));
        }
    }
    for &t in &sol.t {
        let lo = x0.min(xend) - tslack(t);
        let hi = x0.max(xend) + tslack(t);
        if !(t >= lo && t <= hi) {
            return Outcome::viol(format!("{}: sample time {:e} outside [{:e}, {:e}] (first_step={:?}, max_step={:?})", desc, t, x0, xend, first_step, max_step));
        }
    }
    // ---- callbacks stay inside the closed interval
    if log.t_min.is_finite() {
        let lo = x0.min(xend) - tslack(log.t_min);
        let hi = x0.max(xend) + tslack(log.t_max);
        if !(log.t_min >= lo && log.t_max <= hi) {
            return Outcome::viol(format!(
                "{}: callbacks (ode/events/jac) evaluated at times [{:e}, {:e}] outside the interval [{:e}, {:e}] (first_step={:?}, max_step={:?})",
                desc, log.t_min, log.t_max, x0, xend, first_step, max_step
            ));
        }
    }
    // ---- status <-> terminal events
    let mut terminal_reached = false;
    for (k, e) in evs.iter().enumerate() {
        if let Some(cnt) = e.terminal {
            if sol.t_events[k].len() >= cnt {
                terminal_reached = true;
            }
        }
    }
    if (sol.status == Status::UserInterrupt) != terminal_reached {
        return Outcome::viol(format!("{}: status UserInterrupt={} but terminal event count reached={}", desc, sol.status == Status::UserInterrupt, terminal_reached));
    }
    // ---- Success <-> coverage
    let t_last = sol.t.last().copied();
    if sol.status == Status::Success {
        if c.infinite {
            return Outcome::viol(format!("{}: Success reported for an infinite interval", desc));
        }
        if t_eval.is_none() {
            let tl = t_last.unwrap();
            // "to rounding": the solvers' own step-size resolution 10*uround*|x| (about 21 ulp; a shorter
            // remaining step cannot be taken) -- 32 ulp
            if !((tl - xend).abs() <= 8.0 * tslack(tl)) {
                return Outcome::viol(format!("{}: Success but last sample {:e} is not xend={:e} (diff {:e}; first_step={:?}, max_step={:?})", desc, tl, xend, tl - xend, first_step, max_step));
            }
        }
        if c.method != Meth::RK4 {
            for yi in &sol.y {
                if !all_finite(yi) {
                    // finding K5 (listed under C04): DOP853's extra dense-output stages leave the domain of the
                    // right-hand side although every accepted state is inside it
                    let key = if c.method == Meth::DOP853 && matches!(instr.fault, Some(Fault::NormAbove { .. })) && (opts.t_eval.is_some() || opts.dense) {
                        let mut o2 = opts.clone();
                        o2.t_eval = None;
                        o2.dense = false;
                        let mut i2 = Instr::new(&prob, &evs);
                        i2.dir = d;
                        i2.budget = 3_000_000;
                        i2.fault = instr.fault.clone();
                        match solve(&i2, x0, xend, &y0, &o2) {
                            RunResult::Ok(s2) if s2.status == Status::Success && s2.y.iter().all(|y| all_finite(y)) => "C04-dop853-dense-stage-outside-domain",
                            _ => "",
                        }
                    } else {
                        ""
                    };
                    return Outcome::viol_key(key, format!("{}: Success with non-finite state", desc));
                }
            }
        }
        // the stepper itself must have reached xend
        if let Some(&te) = log.ev_t.last() {
            if !real_events && !((te - xend).abs() <= 8.0 * tslack(te)) {
                return Outcome::viol(format!("{}: Success but the last accepted step ended at {:e}, not xend={:e}", desc, te, xend));
            }
        }
        // ... and the steps it stored must cover the interval: the dense output is the record of the steps really taken
        // (a state labelled xend that belongs to a shorter step leaves the stored steps short of xend)
        if c.dense && !real_events && !c.infinite && sol.naccpt > 0 {
            if let Some((_, b)) = sol.sol_span() {
                if !((b - xend).abs() <= 8.0 * tslack(xend)) {
                    return Outcome::viol(format!("{}: Success, last sample at xend={:e}, but the steps stored for the dense output end at {:e} ({:e} short): the interval was not covered", desc, xend, b, (xend - b).abs()));
                }
            }
        }
    } else if !real_events && !c.infinite {
        // converse: a run whose last accepted step reached xend must not report a failure
        if let Some(&te) = log.ev_t.last() {
            let budget_hit = c.max_steps.map(|m| sol.nstep + 1 >= m).unwrap_or(false);
            // exact arrival always counts; arrival "to rounding" only when the interval is long compared with the
            // solvers' step resolution 10*uround*|x| (on an interval of a dozen ulps a last sample one ulp short with
            // StepSizeTooSmall is an honest answer: the remaining distance is below every admissible step)
            let resolved = len >= 2000.0 * ulp(x0.abs().max(xend.abs()));
            if (te == xend || (resolved && (te - xend).abs() <= tslack(te))) && !budget_hit {
                return Outcome::viol(format!(
                    "{}: the last accepted step ended at xend (|diff|={:e}) yet the status is a failure (first_step={:?}, max_step={:?}, nstep={})",
                    desc, (te - xend).abs(), first_step, max_step, sol.nstep
                ));
            }
        }
    }
    let nontrivial = c.first_step.is_some() || !matches!(c.max_step, MaxStep::None) || c.t_eval.is_some() || !c.events.is_empty() || d < 0.0 || c.infinite || len < 1e-6 || len > 1e4;
    let mut class = format!("{}:{}", c.method.name(), status_name(sol.status));
    if c.infinite {
        class.push_str(":inf");
    }
    Outcome::pass(class, nontrivial, json!({"samples": sol.t.len(), "nstep": sol.nstep, "span": len, "status": status_name(sol.status)}))
}

fn benign_spec(nmax: usize) -> BoxedStrategy<ProbSpec> {
    prop_oneof![
        4 => prob_spec(nmax, 0.3, 6.0),
        1 => (fr(-2.0, 2.0), fr(-2.0, 2.0), warp(0.3, 3.0)).prop_map(|(c, u0, w)| ProbSpec { blocks: vec![Block::Const { c, u0 }], warp: w, mix: None, mag2: 0 }),
        1 => (fr(-2.0, 2.0), warp(0.3, 3.0)).prop_map(|(u0, w)| ProbSpec { blocks: vec![Block::Const { c: 0.0, u0 }, Block::Const { c: 0.0, u0: 1.0 }], warp: w, mix: None, mag2: 0 }),
    ]
    .boxed()
}

fn global_spec(nmax: usize) -> BoxedStrategy<ProbSpec> {
    // defined for all intrinsic times: linear blocks (decaying), logistic, constants; no warp
    (proptest::collection::vec(
        prop_oneof![
            (fr(-1.5, -0.05), fr(0.2, 2.0)).prop_map(|(lam, u0)| Block::Real { lam, u0 }),
            (fr(-1.0, -0.05), fr(0.0, 4.0), fr(-2.0, 2.0), fr(0.3, 2.0)).prop_map(|(a, b, x, y)| Block::Pair { a, b, u0: [x, y] }),
            (fr(0.2, 2.0), fr(0.5, 2.0), fr(0.05, 2.0)).prop_map(|(r, k, q)| Block::Logi { r, k, u0: q * k }),
        ],
        1..=nmax,
    ), fr(0.3, 6.0))
        .prop_map(move |(mut blocks, theta)| {
            let mut dsum = 0;
            blocks.retain(|b| {
                dsum += b.dim();
                dsum <= nmax
            });
            if blocks.is_empty() {
                blocks.push(Block::Real { lam: -0.5, u0: 1.0 });
            }
            ProbSpec { blocks, warp: Warp { theta, k: 0, beta: 0.0 }, mix: None, mag2: 0 }
        })
        .boxed()
}

pub fn strategy() -> BoxedStrategy<Case> {
    let opt_first = prop_oneof![
        3 => Just(None),
        3 => (fr(-3.0, 1.0), any::<bool>()).prop_map(|(e, neg)| Some(10f64.powf(e) * if neg { -1.0 } else { 1.0 })),
        1 => prop_oneof![Just(1.0), Just(0.1), Just(0.5), Just(2.0)].prop_map(Some),
    ];
    let max_step = prop_oneof![
        3 => Just(MaxStep::None),
        1 => Just(MaxStep::Inf),
        2 => (1u32..=12).prop_map(MaxStep::Div),
        2 => fr(-2.0, 2.0).prop_map(|e| MaxStep::Rel(10f64.powf(e))),
    ];
    let finite = (
        benign_spec(4),
        prop_oneof![14 => span_wide(-14.5, 6.0).boxed(), 1 => span_offset().boxed()],
        any_method(),
        tols(4, 3.0, 8.0),
        opt_first.clone(),
        max_step.clone(),
        proptest::option::weighted(0.4, t_eval_fracs(12)),
        any::<bool>(),
        proptest::collection::vec(prop_oneof![3 => event_spec(4, false).boxed(), 1 => event_spec(4, true).boxed()], 0..=2),
        proptest::option::weighted(0.25, 1usize..60),
        proptest::option::weighted(0.08, prop_oneof![
            3 => (fr(0.05, 0.98), 0u8..3).prop_map(|(at, v)| Fault::From { at, v }),
            1 => (fr(0.05, 0.98), 0usize..4, 0u8..3).prop_map(|(at, i, v)| Fault::CompFrom { at, i, v }),
            2 => (fr(0.3, 3.0), 0u8..3).prop_map(|(theta, v)| Fault::NormAbove { theta, v }),
        ]),
    )
        .prop_map(|(prob, span, method, (rtol, atol), first_step, max_step, t_eval, dense, mut events, max_steps, fault)| {
            let n: usize = prob.blocks.iter().map(|b| b.dim()).sum();
            fix_events(&mut events, n);
            let method = if method == Meth::RK4 && !rk4_can_step(&span) { Meth::RK23 } else { method };
            // RK4: first_step is the fixed step; keep the number of steps bounded
            let first_step = match (method, first_step) {
                (Meth::RK4, Some(f)) if f.abs() < 2e-3 => Some(f.signum() * 2e-3),
                (_, f) => f,
            };
            Case { prob, span, infinite: false, method, rtol, atol, first_step, max_step, t_eval, dense, events, max_steps, fault }
        });
    let infinite = (global_spec(3), span_wide(-2.0, 2.0), any_method(), tols(3, 3.0, 7.0), fr(-2.5, 0.0), any::<bool>(), max_step, any::<bool>())
        .prop_map(|(prob, span, method, (rtol, atol), fe, has_first, max_step, dense)| {
            let first_step = if method == Meth::RK4 || has_first { Some(10f64.powf(fe) * span.dir()) } else { None };
            // max_step relative to theta; Inf/None both mean unbounded here
            Case { prob, span, infinite: true, method, rtol, atol, first_step, max_step, t_eval: None, dense, events: vec![], max_steps: None, fault: None }
        });
    prop_oneof![9 => finite, 1 => infinite].boxed()
}

pub fn fix_events(events: &mut Vec<EvSpec>, n: usize) {
    for e in events.iter_mut() {
        if let Ev::Affine { a, .. } = &mut e.g {
            a.resize(n, 0.5);
        }
    }
}

pub fn run(ctx: &Ctx, known: &[Known]) -> Report {
    let cases = match ctx.tier {
        Tier::Quick => 300_000,
        Tier::Thorough => 6_000_000,
    };
    let stats = run_generated(ctx, "C03", "gen", &strategy, &check, cases, known);
    Report {
        id: "C03".into(),
        rule: "cases = benign closed-form problems (n<=4, incl. zero and constant right-hand sides) x x0 in +-[0,1e3] x |span| = 10^U[-11.4,6] either direction (or an infinite interval stopped by a terminal event) x all six methods x first_step {none, |span|*10^U[-3,1] of either sign, exact fractions} x max_step {none, inf, span/k exactly (k=1..12), span*10^U[-2,2]} x t_eval x dense_output x non-terminal events x max_steps. Oracle over the returned Solution and an instrumented IVP that records the time of every ode/events/jac call. Non-trivial = at least one of first_step/max_step/t_eval/events given, backward, infinite, |span|<1e-6 or >1e4. Distinct = distinct canonical JSON.".into(),
        assumptions: vec![
            "time slack tau = 4 ulp of max(|x0|,|xend|,|t|); 'last sample is xend to rounding' = within 32 ulp (the solvers' step-size resolution 10*uround*|x| is about 21 ulp)".into(),
            "RK4 with a first_step of the wrong sign returns Err(InvalidStepSize) as documented: counted as trivial".into(),
            "panics / budget overruns are owned by C04 and counted as trivial here".into(),
        ],
        min_nontrivial_frac: 0.5,
        stats,
        exhaustive: false,
    }
}
