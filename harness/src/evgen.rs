//! Two-phase generation of event functions: roots are placed relative to the accepted-step grid
//! of the plain run (on a grid point, 1e-13..1e-9 beside one, mid-step, several in one step).

use crate::gen::*;
use crate::instr::{Ev, EvSpec};
use proptest::prelude::*;
use serde::{Deserialize, Serialize};

#[derive(Serialize, Deserialize, Clone, Debug)]
pub enum EvKind {
    /// t - t*
    Time,
    /// a.y - a.y(t*)
    Affine(Vec<f64>),
    /// y_i y_j - (y_i y_j)(t*)
    Bilinear(usize, usize),
    /// sin(w (t - x0)) - c y_i with c chosen so that t* is a root (falls back to Time if |y_i(t*)| < 0.1)
    SinT(f64, usize),
    /// 1.5 + sin(w (t - x0)/len): no root at all (the placement is ignored)
    Pos(f64),
}

#[derive(Serialize, Deserialize, Clone, Debug)]
pub struct EvRecipe {
    pub kind: EvKind,
    pub at: Place,
    pub dir: i8,
    pub terminal: Option<usize>,
    /// the function is multiplied by 2^scale (exact: same roots, same signs)
    #[serde(default)]
    pub scale: i32,
}

pub fn ev_kind(n: usize) -> impl Strategy<Value = EvKind> {
    prop_oneof![
        3 => Just(EvKind::Time),
        3 => proptest::collection::vec(crate::problems::fr(-1.0, 1.0), n..=n).prop_map(EvKind::Affine),
        2 => (0..n, 0..n).prop_map(|(i, j)| EvKind::Bilinear(i, j)),
        1 => (crate::problems::fr(1.0, 12.0), 0..n).prop_map(|(w, i)| EvKind::SinT(w, i)),
        1 => crate::problems::fr(0.5, 40.0).prop_map(EvKind::Pos),
    ]
}

/// power-of-two factors: mostly none, sometimes moderate, sometimes far outside [1e-150, 1e150]
/// (products of two values then under- or overflow)
pub fn ev_scale() -> impl Strategy<Value = i32> {
    prop_oneof![
        14 => Just(0),
        3 => -70i32..=70,
        3 => -1000i32..=900,
    ]
}

/// placements biased towards "several roots in the same step" and "beside a grid point"
pub fn ev_place() -> impl Strategy<Value = Place> {
    prop_oneof![
        2 => crate::problems::fr(0.02, 0.98).prop_map(Place::Frac),
        4 => (any::<u16>(), 0u8..9).prop_map(|(k, delta)| Place::Near { k, delta }),
        1 => (1u8..4, 0u8..9).prop_map(|(i, delta)| Place::NearIdx { i, delta }),
        1 => Just(Place::End),
        4 => (any::<u16>(), crate::problems::fr(0.02, 0.98)).prop_map(|(k, f)| Place::Mid { k, f }),
    ]
}

pub fn recipe(n: usize, terminal: impl Strategy<Value = Option<usize>>) -> impl Strategy<Value = EvRecipe> {
    (ev_kind(n), ev_place(), -1i8..=1, terminal, ev_scale()).prop_map(|(kind, at, dir, terminal, scale)| EvRecipe { kind, at, dir, terminal, scale })
}

/// recipes sharing placement anchors so that several functions fire inside one step
pub fn recipes(n: usize, maxlen: usize, p_terminal: f64) -> impl Strategy<Value = Vec<EvRecipe>> {
    let term: BoxedStrategy<Option<usize>> = if p_terminal <= 0.0 { Just(None).boxed() } else { proptest::option::weighted(p_terminal, 1usize..=3).boxed() };
    (proptest::collection::vec(recipe(n, term), 1..=maxlen), any::<u16>(), proptest::bool::weighted(0.5)).prop_map(
        |(mut v, k, same_step)| {
            if same_step && v.len() >= 2 {
                // put all of them into the same step at different relative positions
                let m = v.len();
                for (q, r) in v.iter_mut().enumerate() {
                    let f = match &r.at {
                        Place::Mid { f, .. } => *f,
                        Place::Frac(f) => *f,
                        _ => (q as f64 + 0.5) / m as f64,
                    };
                    r.at = Place::Mid { k, f: f.clamp(0.02, 0.98) };
                }
            }
            v
        },
    )
}

/// Resolve recipes against the plain run: `grid` = accepted step ends, `sol(t)` = its dense output.
/// Roots are kept strictly inside the span.
pub fn resolve_recipes(rs: &[EvRecipe], grid: &[f64], sp: &Span, sol: &dyn Fn(f64) -> Option<Vec<f64>>) -> Vec<(EvSpec, f64)> {
    let mut out = vec![];
    let len = sp.len();
    for r in rs {
        let mut ts = resolve_places(std::slice::from_ref(&r.at), grid, sp)[0];
        // strictly inside
        let lo = sp.x0.min(sp.xend) + 1e-9 * len.max(1e-3);
        let hi = sp.x0.max(sp.xend) - 1e-9 * len.max(1e-3);
        // (a root placed at the end of the span stays there: the event function is exactly zero at xend)
        if !matches!(r.at, Place::End) {
            ts = ts.max(lo).min(hi);
        }
        let wrap = |g: Ev| if r.scale == 0 { g } else { Ev::Scaled { k: r.scale, g: Box::new(g) } };
        if let EvKind::Pos(w) = &r.kind {
            // subnormal range too: the strictly positive function may be scaled down to 2^-1070
            let g = Ev::Pos { omega: w / len.max(1e-300), t0: sp.x0 };
            let k = if r.scale < -500 { r.scale - 70 } else { r.scale };
            out.push((EvSpec { g: if k == 0 { g } else { Ev::Scaled { k, g: Box::new(g) } }, dir: r.dir, terminal: r.terminal }, f64::NAN));
            continue;
        }
        let y = match sol(ts) {
            Some(y) => y,
            None => {
                out.push((EvSpec { g: wrap(Ev::Time { c: ts }), dir: r.dir, terminal: r.terminal }, ts));
                continue;
            }
        };
        let n = y.len();
        let g = match &r.kind {
            EvKind::Time => Ev::Time { c: ts },
            EvKind::Affine(a) => {
                let mut a = a.clone();
                a.resize(n, 0.5);
                let c: f64 = a.iter().zip(&y).map(|(p, q)| p * q).sum();
                Ev::Affine { a, bt: 0.0, c }
            }
            EvKind::Bilinear(i, j) => Ev::Bilinear { i: *i % n, j: *j % n, c: y[*i % n] * y[*j % n] },
            EvKind::Pos(_) => unreachable!(),
            EvKind::SinT(w, i) => {
                let yi = y[*i % n];
                if yi.abs() < 0.1 {
                    Ev::Time { c: ts }
                } else {
                    let omega = w / len;
                    Ev::SinT { omega, t0: sp.x0, c: (omega * (ts - sp.x0)).sin() / yi, i: *i % n }
                }
            }
        };
        out.push((EvSpec { g: wrap(g), dir: r.dir, terminal: r.terminal }, ts));
    }
    out
}

/// magnitude of the terms of g at (t, y): scale for rounding errors in evaluating g
pub fn g_scale(e: &Ev, t: f64, y: &[f64]) -> f64 {
    match e {
        Ev::Affine { a, bt, c } => a.iter().zip(y).map(|(p, q)| (p * q).abs()).sum::<f64>() + (bt * t).abs() + c.abs(),
        Ev::Bilinear { i, j, c } => (y[*i % y.len()] * y[*j % y.len()]).abs() + c.abs(),
        Ev::SinT { c, i, omega, t0 } => 1.0 + (c * y[*i % y.len()]).abs() + (omega * (t - t0)).abs() * 1e-16 / f64::EPSILON * f64::EPSILON,
        Ev::Time { c } => t.abs() + c.abs(),
        Ev::Const { v } => v.abs(),
        Ev::Scaled { k, g } => crate::instr::ldexp(g_scale(g, t, y), *k),
        Ev::Pos { .. } => 2.5,
        Ev::Mirror { g } => g_scale(g, -t, y),
    }
}
