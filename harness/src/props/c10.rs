//! C10 — A terminal event stops the run at the event (twin runs: with / without the terminal flags).

use crate::engine::*;
use crate::evgen::*;
use crate::gen::*;
use crate::instr::*;
use crate::problems::*;
use crate::props::c09;
use crate::run::*;
use crate::util::*;
use ivp::prelude::{Solution, Status};
use proptest::prelude::*;
use serde::{Deserialize, Serialize};
use serde_json::json;

#[derive(Serialize, Deserialize, Clone, Debug)]
pub struct Case {
    pub base: c09::Case,
    pub t_eval: Option<Vec<Place>>,
    pub dense: bool,
}

fn run_one(c: &Case, prob: &Prob, evs: &[EvSpec], te: &Option<Vec<f64>>) -> Result<Solution, String> {
    let sp = &c.base.span;
    let mut instr = Instr::new(prob, evs);
    instr.dir = sp.dir();
    instr.use_jac = c.base.analytic_jac;
    match solve(&instr, sp.x0, sp.xend, &prob.y0(), &c09::opts(&c.base, prob.n, c.dense, te.clone())) {
        RunResult::Ok(s) => Ok(s),
        other => Err(other.describe()),
    }
}

pub fn check(c: &Case) -> Outcome {
    let sp = &c.base.span;
    let d = sp.dir();
    let prob = Prob::new(&c.base.prob, sp.x0, sp.xend);
    let plain = match c09::phase1(&c.base, &prob) {
        Ok(p) => p,
        Err(e) => return Outcome::triv(format!("plain-run:{}", e)),
    };
    let resolved = c09::resolve(&c.base, &plain);
    let evs: Vec<EvSpec> = resolved.iter().map(|(e, _)| e.clone()).collect();
    let evs_nt: Vec<EvSpec> = evs.iter().map(|e| EvSpec { g: e.g.clone(), dir: e.dir, terminal: None }).collect();
    let te = c.t_eval.as_ref().map(|p| resolve_places(p, &plain.t, sp));
    let twin = match run_one(c, &prob, &evs_nt, &te) {
        Ok(s) => s,
        Err(e) => return Outcome::triv(format!("twin-run:{}", e.chars().take(30).collect::<String>())),
    };
    // "with and without t_eval": which events occur (and hence whether and where a terminal count is reached) is a matter
    // of the accepted steps, not of the output times asked for -- the twin is only a faithful witness of "a terminal count
    // is reached" if it finds the same events as the run that requests no output times
    if te.is_some() {
        if let Ok(reference) = run_one(c, &prob, &evs_nt, &None) {
            let same = reference.t_events.len() == twin.t_events.len() && reference.t_events.iter().zip(&twin.t_events).all(|(x, y)| bits_eq(x, y));
            if !same {
                return Outcome::viol(format!(
                    "{}: with requested output times {:?}... the events found ({:?} per function) differ from those of the same run without t_eval ({:?} per function): an event that reaches its terminal count would not stop the run",
                    c.base.method.name(), te.as_ref().unwrap().iter().take(3).collect::<Vec<_>>(), twin.t_events.iter().map(|v| v.len()).collect::<Vec<_>>(), reference.t_events.iter().map(|v| v.len()).collect::<Vec<_>>()
                ));
            }
        }
    }
    let sol = match run_one(c, &prob, &evs, &te) {
        Ok(s) => s,
        Err(e) => return Outcome::viol(format!("run without terminal flags is Ok but with them: {}", e)),
    };
    let name = c.base.method.name();
    // when is a terminal count reached (per the twin)?
    let mut stop: Option<(f64, usize, usize)> = None; // (time, function, occurrence index)
    for (k, e) in evs.iter().enumerate() {
        if let Some(cnt) = e.terminal {
            if twin.t_events[k].len() >= cnt {
                let t = twin.t_events[k][cnt - 1];
                let better = match stop {
                    None => true,
                    Some((ts, _, _)) => (t - ts) * d < 0.0,
                };
                if better {
                    stop = Some((t, k, cnt - 1));
                }
            }
        }
    }
    // ties between terminal functions at exactly the same time make the winner a matter of processing order
    if let Some((ts, ks, _)) = stop {
        for (k, e) in evs.iter().enumerate() {
            if k != ks {
                if let Some(cnt) = e.terminal {
                    if twin.t_events[k].len() >= cnt && twin.t_events[k][cnt - 1] == ts {
                        return Outcome::triv("two-terminal-events-at-the-same-time");
                    }
                }
            }
        }
    }
    let same_events = |a: &Solution, b: &Solution| -> bool {
        a.t_events.len() == b.t_events.len()
            && a.t_events.iter().zip(&b.t_events).all(|(x, y)| bits_eq(x, y))
            && a.y_events.iter().zip(&b.y_events).all(|(x, y)| bits_eq2(x, y))
    };
    match stop {
        None => {
            if sol.status != twin.status || !bits_eq(&sol.t, &twin.t) || !bits_eq2(&sol.y, &twin.y) || !same_events(&sol, &twin) {
                return Outcome::viol(format!("{}: no terminal count is reached, yet the run differs from the one without terminal flags (status {} vs {}, {} vs {} samples)", name, status_name(sol.status), status_name(twin.status), sol.t.len(), twin.t.len()));
            }
            Outcome::pass(format!("{}:not-reached", name), false, json!({"events": twin.t_events.iter().map(|v| v.len()).sum::<usize>()}))
        }
        Some((ts, ks, occ)) => {
            if sol.status != Status::UserInterrupt {
                return Outcome::viol(format!("{}: terminal event (function {}, occurrence {}) at t={:e} reached but status is {}", name, ks, occ + 1, ts, status_name(sol.status)));
            }
            let m = sol.t.len();
            if m == 0 {
                return Outcome::viol(format!("{}: no samples returned", name));
            }
            let ys = &twin.y_events[ks][occ];
            if sol.t[m - 1].to_bits() != ts.to_bits() || !bits_eq(&sol.y[m - 1], ys) {
                return Outcome::viol(format!("{}: the final sample (t={:e}) is not the terminal event point (t={:e}, function {}, occurrence {})", name, sol.t[m - 1], ts, ks, occ + 1));
            }
            // ... and that point lies on the continuous solution (the plain run's dense output)
            if let Ok(v) = plain.sol(ts) {
                let mut fy = vec![0.0; v.len()];
                crate::instr::Rhs::f(&prob, ts, &v, &mut fy);
                let tol = 1e-10 * (1.0 + inf_norm(&v)) + inf_norm(&fy) * (8.0 * ulp(ts.abs().max(sp.x0.abs())) + 4e-12);
                if max_abs_diff(&v, &sol.y[m - 1]) > tol {
                    return Outcome::viol(format!("{}: the final sample's state differs from the continuous solution at the event time {:e} by {:e} (tol {:e})", name, ts, max_abs_diff(&v, &sol.y[m - 1]), tol));
                }
            }
            // nothing later than the stop
            // requested output times are matched with the handler's documented 1e-12 resolution
            let slack = if te.is_some() { 1e-12 + tau(sp.x0, sp.xend, ts) } else { 0.0 };
            for (i, t) in sol.t.iter().enumerate() {
                if (t - ts) * d > slack {
                    return Outcome::viol(format!("{}: sample {} at t={:e} lies beyond the terminal event at {:e}", name, i, t, ts));
                }
            }
            let mut others_in_final_step = 0usize;
            for (k, (te_k, ye_k)) in sol.t_events.iter().zip(&sol.y_events).enumerate() {
                for t in te_k {
                    if (t - ts) * d > 0.0 {
                        return Outcome::viol(format!("{}: event of function {} at t={:e} is reported although the run stopped at {:e}", name, k, t, ts));
                    }
                }
                // everything strictly earlier in the twin must be present, identically
                let want_t: Vec<f64> = twin.t_events[k].iter().copied().filter(|t| (t - ts) * d < 0.0).collect();
                let want_n = want_t.len();
                if te_k.len() < want_n || !bits_eq(&te_k[..want_n], &want_t) || !bits_eq2(&ye_k[..want_n], &twin.y_events[k][..want_n]) {
                    return Outcome::viol(format!(
                        "{}: events of function {} before the stop at {:e} differ from the run without terminal flags: {:?} vs {:?}",
                        name, k, ts, te_k, want_t
                    ));
                }
                // extra entries can only sit exactly at the stop time
                for t in &te_k[want_n..] {
                    if *t != ts {
                        return Outcome::viol(format!("{}: unexpected event of function {} at {:e} (stop at {:e})", name, k, t, ts));
                    }
                }
                if k == ks && te_k.len() != occ + 1 {
                    return Outcome::viol(format!("{}: terminal function {} should list {} events up to the stop, lists {}", name, k, occ + 1, te_k.len()));
                }
                if k != ks {
                    // events of other functions in the final step (after the last sample before the stop)
                    let prev = if m >= 2 { sol.t[m - 2] } else { sp.x0 };
                    others_in_final_step += te_k.iter().filter(|t| (**t - prev) * d > 0.0).count();
                }
            }
            // prefix identity of the samples
            let k = m - 1;
            if std::env::var_os("VF_DEBUG").is_some() {
                eprintln!("C10-DEBUG stop {:e}\n sol.t {:?}\n sol.y {:?}\n twin.t {:?}\n twin.y {:?}\n te {:?}", ts, sol.t, sol.y, twin.t, twin.y, te);
            }
            // "everything reported before the stop is identical": bit-identical for samples not later than the event; a
            // requested time inside the 1e-12 slack *beyond* the event is tolerated by C05 but is not "before the
            // stop" -- its value is the event state or an interpolant a rounding error away (|f|*1e-12)
            let kb = sol.t[..k].iter().take_while(|t| (**t - ts) * d <= 0.0).count();
            if k > twin.t.len() || !bits_eq(&sol.t[..k], &twin.t[..k]) || !bits_eq2(&sol.y[..kb], &twin.y[..kb]) {
                return Outcome::viol(format!("{}: the samples before the terminal point are not a bit-identical prefix of the run without terminal flags ({} vs {} samples)", name, k, twin.t.len()));
            }
            for j in kb..k {
                let mut fj = vec![0.0; prob.n];
                crate::instr::Rhs::f(&prob, sol.t[j], &sol.y[j], &mut fj);
                let tol = 1e-10 * (1.0 + inf_norm(&sol.y[j])) + 4.0 * inf_norm(&fj) * 1e-12;
                if max_abs_diff(&sol.y[j], &twin.y[j]) > tol {
                    return Outcome::viol(format!("{}: the requested time {:e} (within 1e-12 beyond the terminal event at {:e}) is reported with a value {:e} away from the run without terminal flags", name, sol.t[j], ts, max_abs_diff(&sol.y[j], &twin.y[j])));
                }
            }
            for t in &twin.t {
                if (t - ts) * d < 0.0 && !sol.t[..k].iter().any(|s| s.to_bits() == t.to_bits()) {
                    return Outcome::viol(format!("{}: sample at t={:e} precedes the terminal event at {:e} but is missing", name, t, ts));
                }
            }
            let cnt = evs[ks].terminal.unwrap();
            Outcome::pass(format!("{}:stopped{}", name, if te.is_some() { ":t_eval" } else { "" }), others_in_final_step >= 1 || cnt >= 2, json!({"stop": ts, "count": cnt, "other_events_in_final_step": others_in_final_step, "samples": m}))
        }
    }
}

pub fn strategy() -> BoxedStrategy<Case> {
    (prob_spec(4, 0.5, 8.0), prop_oneof![13 => span_mid().boxed(), 1 => span_far().boxed()], any_method(), tols(4, 3.0, 9.0), any::<bool>(), proptest::option::weighted(0.2, log10(-1.5, 0.0)))
        .prop_flat_map(|(mut prob, span, method, tol, aj, ms)| {
            // far from the origin: autonomous problems (the rounding of t would make the right-hand side noisy)
            if span.x0.abs() > 1e4 {
                prob.warp.k = 0;
            }
            let n: usize = prob.blocks.iter().map(|b| b.dim()).sum();
            (Just((prob, span, method, tol, aj, ms)), recipes(n, 4, 0.5), proptest::option::weighted(0.4, places(12)), any::<bool>(), proptest::collection::vec(0u8..10, 8..=8))
        })
        .prop_map(|((prob, span, method, (rtol, atol), analytic_jac, max_step), mut recipes, t_eval, dense, coins)| {
            if !recipes.iter().any(|r| r.terminal.is_some()) {
                recipes[0].terminal = Some(1);
            }
            // bias towards counts that are actually reached: count 1 and direction "all" most of the time
            for (q, r) in recipes.iter_mut().enumerate() {
                if r.terminal.is_some() {
                    if coins[q % 4] < 7 {
                        r.terminal = Some(1);
                    }
                    if coins[4 + q % 4] < 6 {
                        r.dir = 0;
                    }
                }
            }
            Case { base: c09::Case { prob, span, method, rtol, atol, analytic_jac, max_step, recipes, first_step: None }, t_eval, dense }
        })
        .boxed()
}

pub fn run(ctx: &Ctx, known: &[Known]) -> Report {
    let cases = match ctx.tier {
        Tier::Quick => 120_000,
        Tier::Thorough => 1_500_000,
    };
    let stats = run_generated(ctx, "C10", "gen", &strategy, &check, cases, known);
    Report {
        id: "C10".into(),
        rule: "two-phase cases: 1..4 event functions (roots placed mid-step / beside grid points / several in the same step, all direction filters), at least one marked terminal with occurrence count 1..3, both directions, six methods, with/without grid-relative t_eval and dense_output. Each case is run with and without the terminal flags (twin); with t_eval the twin must find the same event times, bit for bit, as the same run without t_eval. Oracle: UserInterrupt iff the twin reaches a terminal count; final sample = that event point bit-for-bit; nothing later; earlier events of all functions kept bit-identically; samples before the stop are a bit-identical, complete prefix of the twin's. Non-trivial = the count was reached and (another function's event lies in the final step or count >= 2). Distinct = distinct canonical JSON.".into(),
        assumptions: vec!["two terminal functions reaching their counts at exactly the same time are skipped (winner depends on processing order)".into(), "other functions' events at exactly the stop time may or may not be listed".into()],
        min_nontrivial_frac: 0.08,
        stats,
        exhaustive: false,
    }
}
