//! C11 — max_step, first_step and max_steps are honoured.

use crate::engine::*;
use crate::gen::*;
use crate::instr::*;
use crate::problems::*;
use crate::run::*;
use crate::util::*;
use ivp::prelude::Status;
use proptest::prelude::*;
use serde::{Deserialize, Serialize};
use serde_json::json;

#[derive(Serialize, Deserialize, Clone, Debug)]
pub struct Case {
    pub prob: ProbSpec,
    pub span: Span,
    pub method: Meth,
    pub rtol: Tol,
    pub atol: Tol,
    /// max_step = factor * |span|
    pub max_step: Option<f64>,
    /// first_step = factor * min(max_step, 0.9*|span|)
    pub first_step: Option<f64>,
    pub max_steps: Option<usize>,
    pub analytic_jac: bool,
}

pub fn check(c: &Case) -> Outcome {
    let sp = &c.span;
    let d = sp.dir();
    let prob = Prob::new(&c.prob, sp.x0, sp.xend);
    let n = prob.n;
    let len = sp.len();
    let evs = vec![EvSpec { g: Ev::Const { v: 1.0 }, dir: 0, terminal: None }];
    let max_step = c.max_step.map(|f| f * len);
    let cap = max_step.unwrap_or(f64::INFINITY).min(0.9 * len);
    // (a factor >= 2 encodes "exactly the span", the largest admissible value, when max_step does not forbid it)
    let mut first_step = c.first_step.map(|f| if f >= 2.0 { len.min(max_step.unwrap_or(f64::INFINITY)) } else { f * cap });
    if c.method == Meth::RK4 {
        // RK4: first_step is the fixed step; keep the step count bounded
        first_step = first_step.map(|h| h.max(len / 400.0) * d);
    }
    let mk = |max_steps: Option<usize>| RunOpts {
        method: c.method,
        rtol: c.rtol.fit(n),
        atol: c.atol.fit(n),
        first_step,
        max_step,
        max_steps,
        t_eval: None,
        dense: false,
    };
    let y0 = prob.y0();
    let mut instr = Instr::new(&prob, &evs);
    instr.dir = d;
    instr.use_jac = c.analytic_jac;
    instr.rec_ev = true;
    instr.rec_ode = true;
    let twin = match solve(&instr, sp.x0, sp.xend, &y0, &mk(None)) {
        RunResult::Ok(s) => s,
        other => return Outcome::triv(format!("no-solution:{}", other.describe().chars().take(30).collect::<String>())),
    };
    let log = instr.take_log();
    let desc = format!("{} {}", c.method.name(), status_name(twin.status));
    let steps: Vec<f64> = log.ev_t.clone(); // x after initial call and after every accepted step
    let mut clamp_active = false;

    // ---- (a) max_step
    if let (Some(hm), true) = (max_step, c.method != Meth::RK4) {
        let m = steps.len();
        for (k, w) in steps.windows(2).enumerate() {
            let h = (w[1] - w[0]).abs();
            let is_last = k + 2 == m;
            let lim = if is_last { 1.01 * hm } else { hm };
            if h > lim * (1.0 + 1e-12) + 4.0 * ulp(w[0].abs().max(w[1].abs())) {
                return Outcome::viol(format!(
                    "{}: accepted step {} of {} has length {:e} > max_step {:e}{} (first_step={:?})",
                    desc, k, m - 1, h, hm, if is_last { " (final step, 1% stretch allowed)" } else { "" }, first_step
                ));
            }
            if h >= 0.99 * hm {
                clamp_active = true;
            }
        }
    }
    // ---- (a') the reported intervals obey max_step too (with first_step the output handler reports x0 + first_step
    //      by interpolation and drops the step ends before it: what it reports must still be a grid no coarser than max_step)
    if let (Some(hm), true) = (max_step, c.method != Meth::RK4) {
        let m = twin.t.len();
        for (k, w) in twin.t.windows(2).enumerate() {
            let h = (w[1] - w[0]).abs();
            let lim = if k + 2 == m { 1.01 * hm } else { hm };
            if h > lim * (1.0 + 1e-12) + 4.0 * ulp(w[0].abs().max(w[1].abs())) {
                return Outcome::viol(format!("{}: reported interval {} of {} ([{:e}, {:e}]) has length {:e} > max_step {:e} (first_step={:?})", desc, k, m - 1, w[0], w[1], h, hm, first_step));
            }
        }
    }
    // ---- (b) first_step is the first trial step
    let mut first_checked = false;
    if let Some(h0) = first_step {
        let h0 = h0.abs();
        if log.ev_at_odeidx.len() >= 2 {
            let upto = log.ev_at_odeidx[1];
            let maxoff = log.ode_t[..upto].iter().fold(0.0f64, |m, &t| m.max((t - sp.x0).abs()));
            let tol = 4.0 * ulp(sp.x0.abs() + h0) + 4.0 * ulp(h0);
            // (a trial step within 1 % of the end of the interval is stretched to land on it)
            let lands = (maxoff - len).abs() <= tol && len <= 1.01 * h0 * (1.0 + 1e-12);
            if (maxoff - h0).abs() > tol && !lands {
                return Outcome::viol(format!(
                    "{}: first_step={:e} but the largest time offset evaluated before the first accepted step is {:e} (first trial step is not first_step; max_step={:?})",
                    desc, h0, maxoff, max_step
                ));
            }
            let first_int = (steps[1] - steps[0]).abs();
            if first_int > h0 + tol && !((first_int - len).abs() <= tol && len <= 1.01 * h0 * (1.0 + 1e-12)) {
                return Outcome::viol(format!("{}: first accepted step {:e} is longer than first_step {:e}", desc, first_int, h0));
            }
            if (first_int - h0).abs() <= tol {
                // accepted at first trial: the first reported interval is first_step
                if twin.t.len() >= 2 {
                    let rep = (twin.t[1] - twin.t[0]).abs();
                    if (rep - h0).abs() > tol {
                        return Outcome::viol(format!("{}: first trial step {:e} was accepted but the first reported interval is {:e}", desc, h0, rep));
                    }
                }
            } else {
                // a shorter first accepted step requires a retried trial of exactly that size
                let seen = log.ode_t[..upto].iter().any(|&t| ((t - sp.x0).abs() - first_int).abs() <= tol);
                if !seen {
                    return Outcome::viol(format!("{}: first accepted step {:e} < first_step {:e} but no trial of that size was evaluated", desc, first_int, h0));
                }
            }
            if c.method == Meth::RK4 {
                let m = steps.len();
                for (k, w) in steps.windows(2).enumerate() {
                    let h = (w[1] - w[0]).abs();
                    if k + 2 < m && (h - h0).abs() > 8.0 * ulp(w[1].abs().max(w[0].abs())) + 4.0 * ulp(h0) {
                        return Outcome::viol(format!("{}: RK4 interval {} has length {:e}, not the fixed step {:e}", desc, k, h, h0));
                    }
                    // the final step that lands on xend: shorter, or stretched by at most 1 %
                    if k + 2 == m && h > 1.01 * h0 * (1.0 + 1e-12) + 8.0 * ulp(w[1].abs().max(w[0].abs())) {
                        return Outcome::viol(format!("{}: RK4 final interval has length {:e} = {:.4} x the fixed step {:e} (at most 1 % stretch allowed)", desc, h, h / h0, h0));
                    }
                }
            }
            first_checked = true;
        }
    }
    // ---- (c) step budget
    let mut budget_hit = false;
    if let Some(ms) = c.max_steps {
        let mut i2 = Instr::new(&prob, &evs);
        i2.dir = d;
        i2.use_jac = c.analytic_jac;
        let b = match solve(&i2, sp.x0, sp.xend, &y0, &mk(Some(ms))) {
            RunResult::Ok(s) => s,
            other => return Outcome::viol(format!("{}: unbudgeted run is Ok but max_steps={} gives {}", desc, ms, other.describe())),
        };
        if b.nstep > ms + 1 {
            return Outcome::viol(format!("{}: nstep={} exceeds max_steps+1={} (status {})", desc, b.nstep, ms + 1, status_name(b.status)));
        }
        if twin.nstep <= ms {
            // enough budget: identical run
            if b.status != twin.status || !bits_eq(&b.t, &twin.t) || !bits_eq2(&b.y, &twin.y) || b.nstep != twin.nstep {
                return Outcome::viol(format!("{}: max_steps={} suffices (unbudgeted run took {} steps) but the budgeted run differs: status {} nstep {}", desc, ms, twin.nstep, status_name(b.status), b.nstep));
            }
        } else if twin.nstep > ms + 1 && twin.status != Status::NeedLargerNMax {
            if b.status != Status::NeedLargerNMax {
                return Outcome::viol(format!("{}: the run needs {} steps, max_steps={}, but status is {} not NeedLargerNMax", desc, twin.nstep, ms, status_name(b.status)));
            }
        }
        if b.status == Status::NeedLargerNMax {
            budget_hit = true;
            let k = b.t.len();
            if k > twin.t.len() || !bits_eq(&b.t, &twin.t[..k]) || !bits_eq2(&b.y, &twin.y[..k]) {
                return Outcome::viol(format!("{}: budgeted result (max_steps={}, {} samples) is not a bit-identical prefix of the unbudgeted run ({} samples)", desc, ms, k, twin.t.len()));
            }
        }
    }
    let class = format!("{}:{}{}{}", c.method.name(), if clamp_active { "clamp" } else { "-" }, if first_checked { "+first" } else { "" }, if budget_hit { "+budget" } else { "" });
    Outcome::pass(class, clamp_active || budget_hit || first_checked, json!({"steps": steps.len().saturating_sub(1), "max_step": max_step, "first_step": first_step, "budget_hit": budget_hit}))
}

pub fn strategy() -> BoxedStrategy<Case> {
    let general = (
        // slow dynamics: the controller wants long steps
        prob_spec(5, 0.05, 2.0),
        span_mid(),
        any_method(),
        tols(5, 3.0, 8.0),
        proptest::option::weighted(0.75, log10(-3.0, 0.5)),
        proptest::option::weighted(0.6, prop_oneof![12 => log10(-2.0, 0.0).boxed(), 1 => Just(2.0).boxed()]),
        proptest::option::weighted(0.5, 1usize..300),
        any::<bool>(),
    )
        .prop_map(|(prob, span, method, (rtol, atol), max_step, first_step, max_steps, analytic_jac)| Case { prob, span, method, rtol, atol, max_step, first_step, max_steps, analytic_jac });
    // degenerate starts on a fine time scale: y0 = 0 (constant right-hand side) or f(x0, y0) = 0 (second component at
    // rest), spans of 1e-8..1e-4, max_step a small fraction of the span, automatic first step: the initial-step
    // heuristics fall back to fixed guesses (1e-6) there, which must still respect max_step
    let degenerate = (
        proptest::collection::vec((fr(-2.0, 2.0), any::<bool>()), 1..=3),
        fr(-8.0, -4.0),
        any::<bool>(),
        any_method(),
        tols(3, 3.0, 8.0),
        log10(-2.5, -0.5),
        any::<bool>(),
        warp(0.3, 2.0),
    )
        .prop_map(|(cs, e, back, method, (rtol, atol), max_step, analytic_jac, mut warp)| {
            warp.k = 0;
            let blocks = cs.into_iter().map(|(c, rest)| if rest { Block::Const { c: 0.0, u0: 0.0 } } else { Block::Const { c: if c == 0.0 { 1.0 } else { c }, u0: 0.0 } }).collect();
            Case { prob: ProbSpec { blocks, warp, mix: None, mag2: 0 }, span: mk_span(0.0, 10f64.powf(e), back), method, rtol, atol, max_step: Some(max_step), first_step: None, max_steps: None, analytic_jac }
        });
    // long time ranges with a tiny first step (stiff-kinetics style: [0, 1e6..1e11], first_step 1e-8..1e-3): the first
    // trial step is first_step itself, not a floor derived from the length of the interval
    let long_range = (prob_spec(3, 0.05, 1.0), fr(6.0, 11.0), any::<bool>(), any_method(), tols(3, 3.0, 7.0), fr(-8.0, -3.0), any::<bool>()).prop_map(|(prob, e, back, method, (rtol, atol), fe, analytic_jac)| {
        let len = 10f64.powf(e);
        // first_step is stored as a fraction of min(max_step, 0.9*span)
        let first_step = Some(10f64.powf(fe) / (0.9 * len));
        let method = if method == Meth::RK4 { Meth::BDF } else { method };
        Case { prob, span: mk_span(0.0, len, back), method, rtol, atol, max_step: None, first_step, max_steps: None, analytic_jac }
    });
    prop_oneof![48 => general, 2 => degenerate, 1 => long_range].boxed()
}

pub fn run(ctx: &Ctx, known: &[Known]) -> Report {
    let cases = match ctx.tier {
        Tier::Quick => 200_000,
        Tier::Thorough => 1_500_000,
    };
    let stats = run_generated(ctx, "C11", "gen", &strategy, &check, cases, known);
    Report {
        id: "C11".into(),
        rule: "cases = slowly varying closed-form problems (intrinsic duration 0.05..2, so the controller wants long steps) x spans x six methods x tolerances x max_step = span*10^U[-3,0.5] x first_step <= min(max_step, 0.9 span) or exactly the span x max_steps in 1..300. The accepted-step sequence comes from one events() call per accepted step; the first trial step from the recorded times of the right-hand-side calls; the budgeted run is compared with its unbudgeted twin. Non-trivial = the max_step clamp was active (an accepted step within 1% of max_step), or the first-trial check ran, or the budget ran out. Distinct = distinct canonical JSON.".into(),
        assumptions: vec![
            "max_step bound asserted with relative slack 1e-12 and 4 ulp of the time; the final step may be 1% longer (documented stretch)".into(),
            "NeedLargerNMax is required only when the unbudgeted run needs more than max_steps+1 steps and forbidden when it needs at most max_steps (the solvers differ by one in where they test the budget)".into(),
            "RK4 ignores max_step (fixed step) and is exempt from (a)".into(),
        ],
        min_nontrivial_frac: 0.5,
        stats,
        exhaustive: false,
    }
}
