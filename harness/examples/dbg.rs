use ivp::prelude::*;
struct P{kf:f64,kb:f64}
impl IVP for P { fn ode(&self, _x: f64, y: &[f64], dy: &mut [f64]) { let fl=self.kf*y[0]-self.kb*y[1]; dy[0]=-fl; dy[1]=fl; } }
fn main(){
    let kf=10f64.powf(6.138356); let kb=0.795739*kf*0.1;
    for m in [Method::BDF, Method::RADAU] {
    let o=Options::builder().method(m).rtol(2.777378057091533e-05).atol(2.777378057091533e-05*0.005273804178760979).max_steps(200000).build();
    let s=solve_ivp(&P{kf,kb},-10.0,-10.0+3.8050195,&[0.0987, 0.902564],o).unwrap();
    println!("{:?} status={:?} nacc={} nrej={} nfev={} njev={} nlu={}",m,s.status,s.naccpt,s.nrejct,s.nfev,s.njev,s.nlu);
    }
}
