//! C09 — No sign change between accepted steps goes unreported.

use crate::engine::*;
use crate::evgen::*;
use crate::gen::*;
use crate::instr::*;
use crate::problems::*;
use crate::run::*;
use crate::util::*;
use ivp::prelude::Solution;
use proptest::prelude::*;
use serde::{Deserialize, Serialize};
use serde_json::json;

#[derive(Serialize, Deserialize, Clone, Debug)]
pub struct Case {
    pub prob: ProbSpec,
    pub span: Span,
    pub method: Meth,
    pub rtol: Tol,
    pub atol: Tol,
    pub analytic_jac: bool,
    pub max_step: Option<f64>,
    pub recipes: Vec<EvRecipe>,
    /// first_step as a fraction of the span (error-controlled methods; the output handler then reports the first
    /// interval through its own interpolation path)
    #[serde(default)]
    pub first_step: Option<f64>,
}

pub fn opts(c: &Case, n: usize, dense: bool, t_eval: Option<Vec<f64>>) -> RunOpts {
    let sp = &c.span;
    RunOpts {
        method: c.method,
        rtol: c.rtol.fit(n),
        atol: c.atol.fit(n),
        // RK4: fixed step; half of the time it does not divide the span, so that the last step is a clipped one
        first_step: if c.method == Meth::RK4 { Some(sp.len() * sp.dir() / if c.analytic_jac { 64.0 } else { 63.37 }) } else { c.first_step.map(|f| f * sp.len()) },
        max_step: c.max_step.map(|f| f * sp.len()),
        max_steps: None,
        t_eval,
        dense,
    }
}

/// phase 1: plain run with dense output
pub fn phase1(c: &Case, prob: &Prob) -> Result<Solution, String> {
    let sp = &c.span;
    let none: Vec<EvSpec> = vec![];
    let mut instr = Instr::new(prob, &none);
    instr.dir = sp.dir();
    instr.use_jac = c.analytic_jac;
    match solve(&instr, sp.x0, sp.xend, &prob.y0(), &opts(c, prob.n, true, None)) {
        RunResult::Ok(s) => {
            if s.status != ivp::prelude::Status::Success {
                return Err(format!("status:{}", status_name(s.status)));
            }
            Ok(s)
        }
        other => Err(other.describe().chars().take(30).collect()),
    }
}

/// accepted-step ends and states seen through the events hook (the root finder's own calls lie inside the
/// current step and never set a new record)
pub fn step_grid(log: &Log, d: f64) -> (Vec<f64>, Vec<Vec<f64>>) {
    let idx = step_end_calls(&log.ev_t, d);
    (idx.iter().map(|&k| log.ev_t[k]).collect(), idx.iter().map(|&k| log.ev_y[k].clone()).collect())
}

struct GridView {
    t: Vec<f64>,
    y: Vec<Vec<f64>>,
    t_events: Vec<Vec<f64>>,
}

pub fn resolve(c: &Case, plain: &Solution) -> Vec<(EvSpec, f64)> {
    let f = |t: f64| plain.sol(t).ok();
    resolve_recipes(&c.recipes, &plain.t, &c.span, &f)
}

/// configured-direction strict sign change between consecutive values (in the order of integration)
pub fn strict_change(gl: f64, gr: f64, dir: i8) -> bool {
    match dir {
        0 => (gl < 0.0 && gr > 0.0) || (gl > 0.0 && gr < 0.0),
        1.. => gl < 0.0 && gr > 0.0,
        _ => gl > 0.0 && gr < 0.0,
    }
}

pub fn check(c: &Case) -> Outcome {
    let sp = &c.span;
    let d = sp.dir();
    let prob = Prob::new(&c.prob, sp.x0, sp.xend);
    let n = prob.n;
    let plain = match phase1(c, &prob) {
        Ok(p) => p,
        Err(e) => return Outcome::triv(format!("plain-run:{}", e)),
    };
    let resolved = resolve(c, &plain);
    let evs: Vec<EvSpec> = resolved.iter().map(|(e, _)| EvSpec { g: e.g.clone(), dir: e.dir, terminal: None }).collect();
    let mut instr = Instr::new(&prob, &evs);
    instr.dir = d;
    instr.use_jac = c.analytic_jac;
    instr.rec_ev = true;
    let sol = match solve(&instr, sp.x0, sp.xend, &prob.y0(), &opts(c, n, false, None)) {
        RunResult::Ok(s) => s,
        other => return Outcome::viol(format!("{}: plain run succeeded but the run with events gives {}", c.method.name(), other.describe())),
    };
    if !bits_eq(&sol.t, &plain.t) {
        return Outcome::triv("grid-changed(owned by C12)");
    }
    // the accepted steps as the solver took them (with first_step the reported samples are not the step ends)
    let (gt, gy) = step_grid(&instr.take_log(), d);
    let sol = GridView { t: gt, y: gy, t_events: sol.t_events.clone() };
    let name = c.method.name();
    let m = sol.t.len();
    if m < 2 {
        return Outcome::triv("no-step");
    }
    let mut sign_changes = 0usize;
    let mut multi_steps = 0usize;
    let mut per_step_changes = vec![0usize; m.saturating_sub(1)];
    let mut zero_skips = 0usize;
    for (k, e) in evs.iter().enumerate() {
        let g: Vec<f64> = sol.t.iter().zip(&sol.y).map(|(t, y)| e.g.g(*t, y)).collect();
        // classify steps: 'S' must host exactly one event, 'N' none, 'Z' anything
        let mut cls = vec!['N'; m - 1];
        for i in 0..m - 1 {
            if g[i] == 0.0 || g[i + 1] == 0.0 {
                cls[i] = 'Z';
                zero_skips += 1;
            } else if strict_change(g[i], g[i + 1], e.dir) {
                cls[i] = 'S';
                sign_changes += 1;
                per_step_changes[i] += 1;
            }
        }
        let te = &sol.t_events[k];
        let mut filled = vec![false; m - 1];
        for &t in te {
            // candidate steps containing t (inclusive, a few ulp)
            let mut cands: Vec<usize> = vec![];
            for i in 0..m - 1 {
                let (lo, hi) = (sol.t[i].min(sol.t[i + 1]), sol.t[i].max(sol.t[i + 1]));
                let tt = tau(sp.x0, sp.xend, t);
                if t >= lo - tt && t <= hi + tt {
                    cands.push(i);
                }
            }
            if cands.is_empty() {
                return Outcome::viol(format!("{}: event of function {} ({:?}) at t={:e} lies in no accepted step", name, k, e.g, t));
            }
            let pick = cands.iter().copied().find(|&i| cls[i] == 'S' && !filled[i]).or_else(|| cands.iter().copied().find(|&i| cls[i] == 'Z'));
            match pick {
                Some(i) => {
                    if cls[i] == 'S' {
                        filled[i] = true;
                    }
                }
                None => {
                    let i = cands[0];
                    return Outcome::viol(format!(
                        "{}: spurious or repeated event of function {} ({:?}, direction {}) at t={:e}: in step [{:e},{:e}] g goes {:e} -> {:e}",
                        name, k, e.g, e.dir, t, sol.t[i], sol.t[i + 1], g[i], g[i + 1]
                    ));
                }
            }
        }
        for i in 0..m - 1 {
            if cls[i] == 'S' && !filled[i] {
                return Outcome::viol(format!(
                    "{}: function {} ({:?}, direction {}) changes sign strictly in step [{:e},{:e}] (g: {:e} -> {:e}) but no event is reported there (events: {:?})",
                    name, k, e.g, e.dir, sol.t[i], sol.t[i + 1], g[i], g[i + 1], te
                ));
            }
        }
        // a time event has exactly one root
        if let Ev::Time { c: root } = e.g.unscaled() {
            let on_grid = sol.t.iter().any(|t| t == root);
            // a root placed at xend lies beyond the last step end when the solver lands an ulp short of xend (allowed):
            // only roots strictly between x0 and the last accepted step end must be found
            let inside = (*root - sol.t[0]) * d > 0.0 && (sol.t[m - 1] - *root) * d > 0.0;
            let wanted = inside && (e.dir == 0 || (e.dir as f64) * d > 0.0);
            if !inside && !on_grid {
                continue;
            }
            if !on_grid && wanted {
                if te.len() != 1 {
                    return Outcome::viol(format!("{}: g = t - {:e} has one root strictly inside the span, not on a step end, but {} events were reported: {:?}", name, root, te.len(), te));
                }
                if (te[0] - root).abs() > 4e-12 + 8.0 * f64::EPSILON * root.abs() {
                    return Outcome::viol(format!("{}: root of t - c located at {:e}, c = {:e} (error {:e})", name, te[0], root, (te[0] - root).abs()));
                }
            }
            if !on_grid && !wanted && !te.is_empty() {
                return Outcome::viol(format!("{}: g = t - {:e} crosses against the configured direction {} but events were reported: {:?}", name, root, e.dir, te));
            }
        }
    }
    for s in &per_step_changes {
        if *s >= 2 {
            multi_steps += 1;
        }
    }
    // with terminal flags the run stops early, but no sign change before the stop may go unreported: every
    // function's events are exactly those of the run above that are not later than the stop
    if resolved.iter().any(|(e, _)| e.terminal.is_some()) {
        let evt: Vec<EvSpec> = resolved.iter().map(|(e, _)| e.clone()).collect();
        let mut it = Instr::new(&prob, &evt);
        it.dir = d;
        it.use_jac = c.analytic_jac;
        let st = match solve(&it, sp.x0, sp.xend, &prob.y0(), &opts(c, n, false, None)) {
            RunResult::Ok(s) => s,
            other => return Outcome::viol(format!("{}: the run solves without terminal flags but with them gives {}", name, other.describe())),
        };
        if st.status == ivp::prelude::Status::UserInterrupt {
            let t_stop = *st.t.last().unwrap();
            for k in 0..evt.len() {
                let want: Vec<f64> = sol.t_events[k].iter().copied().filter(|t| (t - t_stop) * d <= 1e-12 * (1.0 + t_stop.abs())).collect();
                let got = &st.t_events[k];
                // the stopping event itself may be the last of its function; events strictly before the stop must all be there
                let strictly_before: Vec<f64> = sol.t_events[k].iter().copied().filter(|t| (t - t_stop) * d < -1e-12 * (1.0 + t_stop.abs())).collect();
                let ok = got.len() >= strictly_before.len() && got.len() <= want.len() && bits_eq(&got[..], &want[..got.len()]);
                if !ok {
                    return Outcome::viol(format!(
                        "{}: with the terminal flags the run stops at {:e}; function {} ({:?}) then reports {:?}, but without the flags its events up to the stop are {:?}",
                        name, t_stop, k, evt[k].g, got, want
                    ));
                }
            }
        }
    }
    let class = format!("{}:{}", name, if multi_steps > 0 { "multi" } else if sign_changes > 0 { "single" } else { "none" });
    Outcome::pass(class, sign_changes > 0, json!({"steps": m - 1, "sign_changes": sign_changes, "steps_with_two_or_more": multi_steps, "zero_endpoint_pairs_skipped": zero_skips}))
}

pub fn strategy() -> BoxedStrategy<Case> {
    // ordinary spans; one case in twelve runs on a picosecond-scale time axis (accepted steps shorter than the
    // root finder's absolute time tolerance)
    // ... and one in thirteen far from the origin (|x0| = 1e5..1e12: the root finder's and the handler's absolute
    // tolerances are far below the spacing of the time axis; autonomous problems there)
    let span = prop_oneof![11 => span_mid().boxed(), 1 => (fr(-11.3, -8.0), any::<bool>()).prop_map(|(e, back)| mk_span(0.0, 10f64.powf(e), back)).boxed(), 1 => span_far().boxed()];
    (prob_spec(4, 0.5, 8.0), span, any_method(), tols(4, 3.0, 9.0), any::<bool>(), proptest::option::weighted(0.2, log10(-1.5, 0.0)), proptest::option::weighted(0.25, log10(-3.0, -0.7)))
        .prop_flat_map(|(prob, span, method, tol, aj, ms, fs)| {
            let n: usize = prob.blocks.iter().map(|b| b.dim()).sum();
            (Just((prob, span, method, tol, aj, ms, fs)), recipes(n, 4, 0.25))
        })
        .prop_map(|((mut prob, span, method, (rtol, atol), analytic_jac, max_step, first_step), recipes)| {
            if span.x0.abs() > 1e4 {
                prob.warp.k = 0;
            }
            Case { prob, span, method, rtol, atol, analytic_jac, max_step, recipes, first_step }
        })
        .boxed()
}

pub fn run(ctx: &Ctx, known: &[Known]) -> Report {
    let cases = match ctx.tier {
        Tier::Quick => 40_000,
        Tier::Thorough => 1_500_000,
    };
    let mut stats = run_generated(ctx, "C09", "gen", &strategy, &check, cases, known);
    let multi: u64 = stats.classes.iter().filter(|(k, _)| k.ends_with(":multi")).map(|(_, v)| *v).sum();
    stats.extra.insert("cases_with_two_functions_changing_sign_in_one_step".into(), json!(multi));
    Report {
        id: "C09".into(),
        rule: "two-phase cases: a plain dense run gives the accepted-step grid; 1..4 non-terminal event functions (t - c, a.y - c, y_i y_j - c, sin(w t) - c y_i; all three direction filters) get their roots placed on that grid's scale: mid-step, 1e-13..1e-9 beside a grid point, or several functions in the same step; t_eval = None, no first_step (RK4: fixed step span/64). Oracle: sign pattern of g at the reported step ends vs reported events (exactly one per strict sign change in the configured direction, none for equal strict signs, exact zeros skipped), single-root time events located to 4e-12 + 8 eps |c|. Non-trivial = at least one strict sign change; the sub-class with two functions changing sign in one step is counted. Distinct = distinct canonical JSON.".into(),
        assumptions: vec!["the step grid with events equals the plain run's (C12; otherwise the case is trivial here)".into(), "an event within 4 ulp of a shared step end may be attributed to either adjacent step".into()],
        min_nontrivial_frac: 0.5,
        stats,
        exhaustive: false,
    }
}
