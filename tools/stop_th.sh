#!/usr/bin/env bash
# stop the private-copy thorough dry run under /tmp/th and remove it
for p in $(pgrep -f '/tmp/th/'); do [ "$p" != "$$" ] && kill "$p" 2>/dev/null; done
sleep 2
for p in $(pgrep -f '/tmp/th/'); do [ "$p" != "$$" ] && kill -9 "$p" 2>/dev/null; done
git -C /repo worktree remove --force /tmp/th/repo 2>/dev/null; rm -rf /tmp/th; git -C /repo worktree prune
