//! C04 — solve_ivp always terminates and never panics on valid input.

use crate::engine::*;
use crate::gen::*;
use crate::instr::*;
use crate::problems::*;
use crate::run::*;
use crate::util::*;
use ivp::prelude::Status;
use proptest::prelude::*;
use serde::{Deserialize, Serialize};
use serde_json::json;

#[derive(Serialize, Deserialize, Clone, Debug)]
pub enum Patho {
    /// y' = s*y^p (p = 2,3), blow-up at tau = 1/((p-1) u0^(p-1))
    Pow { p: u8, u0: f64 },
    /// y' = s*(1+y^2)
    Tan { u0: f64 },
    /// y' = s*exp(y), blow-up at tau = exp(-u0)
    Exp { u0: f64 },
    /// y_i' = s*(-lam_i (y_i - cos(tau))), stiff decay handled by explicit methods too
    Stiff { lams: Vec<f64> },
    /// y' = s*(-lam y + amp*sign(sin(2 pi tau / period)))
    Square { lam: f64, amp: f64, period: f64 },
    /// y' = s*(a1 y) before tau_j, s*(a2 y) after
    CoefJump { a1: f64, a2: f64, tj: f64 },
    /// y' = s*(-k sign(y - c) - 0.3) .. crossing without sliding: y1' = 1, y2' = -k*sign(y1 - c) 
    StateSwitch { k: f64, c: f64 },
    /// benign closed-form problem (faults are injected by the instrumented IVP)
    Benign(ProbSpec),
    /// y_0' = lam*y_0 with lam = +-2^k and further decoupled linear components, analytic Jacobian, and a first step
    /// chosen so that the implicit method's iteration matrix is EXACTLY singular at the first attempt
    /// (BDF: I - h/alpha_1 * J with alpha_1 = 1.185; Radau: U1/h * I - J with U1 = 3.6378...): the
    /// singular-matrix retry path.  `mult` = span / first_step.
    Resonant { k: i32, neg: bool, extra: Vec<f64>, mult: f64 },
}

struct PathoRhs<'a> {
    p: &'a Patho,
    x0: f64,
    s: f64,
    /// intrinsic time per unit t
    rate: f64,
    benign: Option<Prob>,
}

impl<'a> PathoRhs<'a> {
    fn tau(&self, t: f64) -> f64 {
        (t - self.x0) * self.s * self.rate
    }
}

impl<'a> Rhs for PathoRhs<'a> {
    fn dim(&self) -> usize {
        match self.p {
            Patho::Stiff { lams } => lams.len(),
            Patho::Resonant { extra, .. } => 1 + extra.len(),
            Patho::StateSwitch { .. } => 2,
            Patho::Benign(_) => self.benign.as_ref().unwrap().n,
            _ => 1,
        }
    }
    fn f(&self, t: f64, y: &[f64], dy: &mut [f64]) {
        let c = self.s * self.rate;
        match self.p {
            Patho::Pow { p, .. } => dy[0] = c * y[0].powi(*p as i32),
            Patho::Tan { .. } => dy[0] = c * (1.0 + y[0] * y[0]),
            Patho::Exp { .. } => dy[0] = c * y[0].exp(),
            Patho::Stiff { lams } => {
                let tau = self.tau(t);
                for (i, l) in lams.iter().enumerate() {
                    dy[i] = c * (-l * (y[i] - tau.cos()));
                }
            }
            Patho::Square { lam, amp, period } => {
                let tau = self.tau(t);
                let sq = if (2.0 * std::f64::consts::PI * tau / period).sin() >= 0.0 { 1.0 } else { -1.0 };
                dy[0] = c * (-lam * y[0] + amp * sq);
            }
            Patho::CoefJump { a1, a2, tj } => {
                let tau = self.tau(t);
                dy[0] = c * (if tau < *tj { *a1 } else { *a2 }) * y[0];
            }
            Patho::StateSwitch { k, c: cc } => {
                dy[0] = c;
                dy[1] = c * (-k * (if y[0] - cc >= 0.0 { 1.0 } else { -1.0 }));
            }
            Patho::Benign(_) => self.benign.as_ref().unwrap().f(t, y, dy),
            Patho::Resonant { k, neg, extra, .. } => {
                let lam = crate::instr::ldexp(if *neg { -1.0 } else { 1.0 }, *k);
                dy[0] = lam * y[0];
                for (i, e) in extra.iter().enumerate() {
                    dy[i + 1] = e * lam.abs() * y[i + 1];
                }
            }
        }
    }
    fn has_jac(&self) -> bool {
        matches!(self.p, Patho::Resonant { .. })
    }
    fn jac_dense(&self, _t: f64, _y: &[f64], j: &mut [f64]) {
        if let Patho::Resonant { k, neg, extra, .. } = self.p {
            let n = 1 + extra.len();
            let lam = crate::instr::ldexp(if *neg { -1.0 } else { 1.0 }, *k);
            for v in j.iter_mut() {
                *v = 0.0;
            }
            j[0] = lam;
            for (i, e) in extra.iter().enumerate() {
                j[(i + 1) * n + i + 1] = e * lam.abs();
            }
        }
    }
}

/// the singular-matrix retry path of the implicit methods (see Patho::Resonant)
fn check_resonant(c: &Case, k: i32, neg: bool, extra: &[f64], mult: f64) -> Outcome {
    let meth = if c.method == Meth::BDF { Meth::BDF } else { Meth::RADAU };
    // the constants as the solvers form them
    let gamma = if meth == Meth::BDF { 1.0 - (-0.1850) } else { 3.637_834_252_744_496 };
    let lam = crate::instr::ldexp(if neg { -1.0 } else { 1.0 }, k);
    let d = if neg { -1.0 } else { 1.0 }; // h*lam > 0: a growing mode in the direction of integration
    let h0 = gamma / lam.abs();
    let (x0, xend) = (0.0, d * h0 * mult);
    let rhs = PathoRhs { p: &c.patho, x0, s: d, rate: 1.0, benign: None };
    let n = 1 + extra.len();
    let y0 = vec![1.0; n];
    let none: Vec<EvSpec> = vec![];
    let name = meth.name();
    let run = |first: f64| -> RunResult {
        let mut instr = Instr::new(&rhs, &none);
        instr.dir = d;
        instr.use_jac = true;
        instr.budget = 2_000_000;
        let o = RunOpts { method: meth, rtol: Tol::S(c.rtol), atol: Tol::S(c.atol), first_step: Some(first), max_step: None, max_steps: Some(5000), t_eval: None, dense: c.dense };
        solve(&instr, x0, xend, &y0, &o)
    };
    let twin = match run(h0 * (1.0 + 1e-6)) {
        RunResult::Ok(s) if s.status == Status::Success => s,
        other => return Outcome::triv(format!("non-resonant-twin:{}", other.describe().chars().take(30).collect::<String>())),
    };
    match run(h0) {
        RunResult::Ok(s) => {
            if s.status != Status::Success || s.nstep > 3 * twin.nstep + 50 {
                return Outcome::viol(format!(
                    "{}: y' = {:e} y with the analytic Jacobian and first_step = {:e} (iteration matrix exactly singular at the first attempt): {} after {} steps, while first_step*(1+1e-6) gives Success after {} steps",
                    name, lam, h0, status_name(s.status), s.nstep, twin.nstep
                ));
            }
            Outcome::pass(format!("{}:resonant", name), true, json!({"status": status_name(s.status), "nstep_resonant": s.nstep, "nstep_twin": twin.nstep, "nlu": s.nlu}))
        }
        RunResult::Err(e) => Outcome::pass(format!("{}:Err", name), true, json!({"err": e})),
        RunResult::Panic(m) => Outcome::viol(format!("{}: solve_ivp panicked on the exactly singular iteration matrix: {}", name, m)),
        RunResult::Budget => Outcome::viol(format!("{}: solve_ivp did not return within 2,000,000 right-hand-side evaluations (exactly singular iteration matrix at the first attempt, lam = {:e}, first_step = {:e})", name, lam, h0)),
    }
}

#[derive(Serialize, Deserialize, Clone, Debug)]
pub struct Case {
    pub patho: Patho,
    pub span: Span,
    /// intrinsic duration covered by the span
    pub theta: f64,
    pub method: Meth,
    pub rtol: f64,
    pub atol: f64,
    pub max_steps: Option<usize>,
    pub t_eval: Option<Vec<f64>>,
    pub dense: bool,
    pub with_event: bool,
    pub fault: Option<Fault>,
    pub first_step: Option<f64>,
    pub max_step: Option<f64>,
    /// lower bound on the step size as a fraction of the span (Radau, BDF)
    #[serde(default)]
    pub min_step: Option<f64>,
}

pub fn check(c: &Case) -> Outcome {
    if let Patho::Resonant { k, neg, extra, mult } = &c.patho {
        return check_resonant(c, *k, *neg, extra, *mult);
    }
    let sp = &c.span;
    let d = sp.dir();
    let len = sp.len();
    let benign = if let Patho::Benign(spec) = &c.patho { Some(Prob::new(spec, sp.x0, sp.xend)) } else { None };
    let rhs = PathoRhs { p: &c.patho, x0: sp.x0, s: d, rate: c.theta / len, benign };
    let n = rhs.dim();
    let y0: Vec<f64> = match &c.patho {
        Patho::Pow { u0, .. } | Patho::Tan { u0 } | Patho::Exp { u0 } => vec![*u0],
        Patho::Stiff { lams } => lams.iter().enumerate().map(|(i, _)| 1.0 + 0.5 * i as f64).collect(),
        Patho::Square { .. } => vec![0.5],
        Patho::CoefJump { .. } => vec![1.0],
        Patho::StateSwitch { .. } => vec![0.0, 1.0],
        Patho::Benign(_) => rhs.benign.as_ref().unwrap().y0(),
        Patho::Resonant { .. } => unreachable!(),
    };
    let evs = if c.with_event { vec![EvSpec { g: Ev::Affine { a: vec![1.0; n], bt: 0.0, c: 3.0 }, dir: 0, terminal: None }] } else { vec![] };
    let mut instr = Instr::new(&rhs, &evs);
    instr.dir = d;
    instr.budget = std::env::var("VF_C04_BUDGET").ok().and_then(|v| v.parse().ok()).unwrap_or(2_000_000);
    instr.fault = c.fault.as_ref().map(|f| match f {
        Fault::From { at, v } => Fault::From { at: sp.x0 + at * (sp.xend - sp.x0), v: *v },
        Fault::CompFrom { at, i, v } => Fault::CompFrom { at: sp.x0 + at * (sp.xend - sp.x0), i: *i, v: *v },
        other => other.clone(),
    });
    let opts = RunOpts {
        method: c.method,
        rtol: Tol::S(c.rtol),
        atol: Tol::S(c.atol),
        first_step: match (c.method, c.first_step) {
            (Meth::RK4, Some(f)) => Some(f.max(0.002) * len * d),
            (_, f) => f.map(|f| f * len),
        },
        max_step: c.max_step.map(|f| f * len),
        max_steps: c.max_steps,
        t_eval: c.t_eval.as_ref().map(|f| fracs_to_times(sp, f)),
        dense: c.dense,
    };
    let extra = Extra { min_step: c.min_step.map(|f| f * len), ..Default::default() };
    let res = solve_ex(&instr, sp.x0, sp.xend, &y0, &opts, &extra);
    let log = instr.take_log();
    let name = c.method.name();
    let sol = match res {
        RunResult::Ok(s) => s,
        RunResult::Err(e) => {
            // an Err is an allowed way to refuse, but valid configurations should not be refused
            return Outcome::pass(format!("{}:Err", name), true, json!({"err": e}));
        }
        RunResult::Panic(m) => return Outcome::viol(format!("{}: solve_ivp panicked: {}", name, m)),
        RunResult::Budget => {
            let key = if boundary_creep(c, &rhs, &evs, &opts, &y0) { "C04-boundary-creep" } else { "" };
            return Outcome::viol_key(key, format!(
                "{}: solve_ivp did not return within 2,000,000 right-hand-side evaluations (unbounded work; rtol={:e}, max_steps={:?}, fault={:?})",
                name, c.rtol, c.max_steps, instr.fault
            ))
        }
    };
    // structure of what was returned
    if sol.t.len() != sol.y.len() {
        return Outcome::viol(format!("{}: t.len() {} != y.len() {}", name, sol.t.len(), sol.y.len()));
    }
    for w in sol.t.windows(2) {
        if !((w[1] - w[0]) * d >= 0.0) {
            return Outcome::viol(format!("{}: returned times are not ordered: {:e} then {:e}", name, w[0], w[1]));
        }
    }
    if let Some(t) = sol.t.iter().find(|t| !t.is_finite()) {
        return Outcome::viol(format!("{}: non-finite sample time {}", name, t));
    }
    let finite_states = sol.y.iter().all(|y| all_finite(y));
    if c.method != Meth::RK4 {
        if sol.status == Status::Success && !finite_states {
            // finding K5: DOP853's three extra dense-output stages, evaluated after the step has been accepted,
            // leave the domain of the right-hand side although every accepted state is inside it
            let key = if c.method == Meth::DOP853 && matches!(instr.fault, Some(Fault::NormAbove { .. })) && (opts.t_eval.is_some() || opts.dense) {
                let mut o2 = opts.clone();
                o2.t_eval = None;
                o2.dense = false;
                let mut i2 = Instr::new(&rhs, &evs);
                i2.dir = d;
                i2.budget = 2_000_000;
                i2.fault = instr.fault.clone();
                match solve(&i2, sp.x0, sp.xend, &y0, &o2) {
                    RunResult::Ok(s2) if s2.status == Status::Success && s2.y.iter().all(|y| all_finite(y)) => "C04-dop853-dense-stage-outside-domain",
                    _ => "",
                }
            } else {
                ""
            };
            return Outcome::viol_key(key, format!("{}: Success reported with non-finite states (fault={:?}, patho={:?})", name, instr.fault, c.patho));
        }
        // a right-hand side that is non-finite from some time strictly inside the interval up to
        // xend cannot be integrated to xend
        if let Some(Fault::From { at, .. }) | Some(Fault::CompFrom { at, .. }) = &instr.fault {
            let inside = (*at - sp.x0) * d > 0.0 && (sp.xend - *at) * d > 1e-9 * len;
            if inside && sol.status == Status::Success {
                return Outcome::viol(format!("{}: the right-hand side is non-finite from t={:e} to xend={:e}, yet the status is Success", name, at, sp.xend));
            }
        }
    }
    if std::env::var_os("VF_C04_BUDGET").is_some() {
        eprintln!("C04-DEBUG status {:?} nfev {} nstep {} naccpt {} nrejct {} last t {:?} samples {}", sol.status, sol.nfev, sol.nstep, sol.naccpt, sol.nrejct, sol.t.last(), sol.t.len());
        let k = sol.t.len();
        eprintln!("last times {:?}", &sol.t[k.saturating_sub(6)..]);
    }
    let nontrivial = log.nonfinite_returned || sol.status != Status::Success || sol.nrejct > 0;
    Outcome::pass(
        format!("{}:{}:{}", name, status_name(sol.status), match &c.patho { Patho::Pow { .. } | Patho::Tan { .. } | Patho::Exp { .. } => "blowup", Patho::Stiff { .. } => "stiff", Patho::Benign(_) => "fault", _ => "discont" }),
        nontrivial,
        json!({"status": status_name(sol.status), "rhs_evals": log.ode_calls + log.ode_calls_in_jac, "nonfinite_rhs": log.nonfinite_returned, "samples": sol.t.len()}),
    )
}

/// Diagnosis of a non-terminating run (finding K3, DESIGN section 5.2): the right-hand side is non-finite
/// on a *state-dependent* region (|y| > theta), the explicit solver has crept up to that boundary until
/// the state is within an ulp of it, and from then on steps so short that y + h*f == y are accepted
/// (error estimate zero, the state does not move, only t advances by ~1e-16) while every longer step
/// enters the region and is rejected.  Signature, checked on the same run with a budget of 4000 steps:
/// NeedLargerNMax; over the last 200 accepted steps the max-norm of the state is bit-identical (the component at the boundary is pinned) and no component moves by more than 1e-9; each step is shorter than
/// 1e-9 of the span; at least a third of all steps were rejected.
fn boundary_creep(c: &Case, rhs: &dyn Rhs, evs: &[EvSpec], opts: &RunOpts, y0: &[f64]) -> bool {
    if !matches!(c.fault, Some(Fault::NormAbove { .. })) {
        return false;
    }
    let sp = &c.span;
    let mut counter = evs.to_vec();
    counter.insert(0, EvSpec { g: Ev::Const { v: 1.0 }, dir: 0, terminal: None });
    let mut instr = Instr::new(rhs, &counter);
    instr.dir = sp.dir();
    instr.budget = 2_000_000;
    instr.rec_ev = true;
    instr.fault = c.fault.clone();
    let mut o = opts.clone();
    o.max_steps = Some(4000);
    let sol = match solve(&instr, sp.x0, sp.xend, y0, &o) {
        RunResult::Ok(s) => s,
        _ => return false,
    };
    let log = instr.take_log();
    if std::env::var_os("VF_C04_BUDGET").is_some() {
        eprintln!("creep-diag: status {:?} nstep {} nrejct {} ev_calls {}", sol.status, sol.nstep, sol.nrejct, log.ev_t.len());
    }
    if sol.status != Status::NeedLargerNMax || sol.nrejct * 3 < sol.nstep {
        return false;
    }
    // accepted step ends = event-hook calls that set a new record in the direction of integration
    let idx = step_end_calls(&log.ev_t, sp.dir());
    if idx.len() < 300 {
        return false;
    }
    let tail = &idx[idx.len() - 200..];
    let ylast = &log.ev_y[*tail.last().unwrap()];
    // the component that carries the max-norm is pinned at the boundary (bit-identical norm over the last 200
    // accepted steps) and the others as good as stand still
    let yfirst = &log.ev_y[tail[0]];
    let pinned = tail.iter().all(|&k| inf_norm(&log.ev_y[k]).to_bits() == inf_norm(ylast).to_bits());
    let still = pinned && yfirst.iter().zip(ylast).all(|(a, b)| (a - b).abs() <= 1e-9 * (1.0 + a.abs()));
    if std::env::var_os("VF_C04_BUDGET").is_some() {
        eprintln!("creep-diag: still={} y {:?} -> {:?} t {:e} -> {:e}", still, yfirst, ylast, log.ev_t[tail[0]], log.ev_t[*tail.last().unwrap()]);
    }
    still && tail.windows(2).all(|w| (log.ev_t[w[1]] - log.ev_t[w[0]]).abs() < 1e-9 * sp.len())
}

pub fn strategy() -> BoxedStrategy<Case> {
    let fault = prop_oneof![
        3 => (fr(0.05, 0.95), 0u8..3).prop_map(|(at, v)| Fault::From { at, v }),
        2 => (fr(0.05, 0.95), 0usize..8, 0u8..3).prop_map(|(at, i, v)| Fault::CompFrom { at, i, v }),
        1 => (fr(0.5, 3.0), 0u8..3).prop_map(|(theta, v)| Fault::NormAbove { theta, v }),
        1 => (prop_oneof![Just(0.0), Just(1.0)], 0u8..3).prop_map(|(at, v)| Fault::From { at, v }),
    ];
    // (patho, theta, fault)
    let scen = prop_oneof![
        // blow-up: the span covers `margin` times the blow-up time
        3 => (2u8..=3, fr(0.3, 3.0), fr(0.5, 3.0)).prop_map(|(p, u0, margin)| {
            let tstar = 1.0 / ((p as f64 - 1.0) * u0.powi(p as i32 - 1));
            (Patho::Pow { p, u0 }, margin * tstar, None)
        }),
        2 => (fr(-1.0, 2.0), fr(0.5, 3.0)).prop_map(|(u0, margin)| (Patho::Tan { u0 }, margin * (std::f64::consts::FRAC_PI_2 - u0.atan()), None)),
        1 => (fr(-1.0, 2.0), fr(0.5, 3.0)).prop_map(|(u0, margin)| (Patho::Exp { u0 }, margin * (-u0).exp(), None)),
        2 => (proptest::collection::vec(log10(0.0, 4.0), 1..4), fr(0.5, 3.0)).prop_map(|(lams, theta)| {
            let lmax = lams.iter().cloned().fold(1.0, f64::max);
            (Patho::Stiff { lams }, theta.min(3.0e4 / lmax), None)
        }),
        2 => (fr(0.1, 5.0), fr(0.1, 3.0), fr(0.2, 2.0), fr(1.0, 8.0)).prop_map(|(lam, amp, period, theta)| (Patho::Square { lam, amp, period }, theta, None)),
        1 => (fr(-3.0, 1.0), fr(-3.0, 1.0), fr(0.05, 0.95), fr(0.5, 4.0)).prop_map(|(a1, a2, f, theta)| (Patho::CoefJump { a1, a2, tj: f * theta }, theta, None)),
        1 => (fr(0.5, 5.0), fr(0.1, 0.9), fr(0.5, 4.0)).prop_map(|(k, f, theta)| (Patho::StateSwitch { k, c: f * theta }, theta, None)),
        5 => (prob_spec(4, 0.5, 6.0), fault).prop_map(|(spec, fl)| {
            let th = spec.warp.theta;
            (Patho::Benign(spec), th, Some(fl))
        }),
        1 => (-20i32..=20, any::<bool>(), proptest::collection::vec(fr(-2.0, 0.9), 0..3), fr(1.5, 10.0)).prop_map(|(k, neg, extra, mult)| (Patho::Resonant { k, neg, extra, mult }, 1.0, None)),
    ];
    (
        scen,
        prop_oneof![14 => span_mid().boxed(), 1 => span_offset().boxed()],
        any_method(),
        (fr(3.0, 10.0), fr(-3.0, 0.0)),
        prop_oneof![3 => Just(None), 2 => (1usize..10_000).prop_map(Some), 1 => (1usize..20).prop_map(Some)],
        proptest::option::weighted(0.3, t_eval_fracs(10)),
        any::<bool>(),
        proptest::bool::weighted(0.3),
        (proptest::option::weighted(0.25, log10(-3.0, 0.0)), proptest::option::weighted(0.2, log10(-2.0, 0.5)), proptest::option::weighted(0.15, log10(-9.0, -2.0))),
        0u8..6,
    )
        .prop_map(|((patho, theta, fault), span, method, (re, ar), max_steps, t_eval, dense, with_event, (first_step, max_step, min_step), z)| {
            // start exactly at 0 now and then (the underflow guards compare against |x|)
            let span = if z == 0 { mk_span(0.0, span.len(), span.dir() < 0.0) } else { span };
            let method = if method == Meth::RK4 && !rk4_can_step(&span) { Meth::RK23 } else { method };
            let rtol = 10f64.powf(-re);
            Case { patho, span, theta, method, rtol, atol: rtol * 10f64.powf(ar), max_steps, t_eval, dense, with_event, fault, first_step, max_step, min_step }
        })
        .boxed()
}

pub fn run(ctx: &Ctx, known: &[Known]) -> Report {
    let cases = match ctx.tier {
        Tier::Quick => 30_000,
        Tier::Thorough => 1_000_000,
    };
    let stats = run_generated(ctx, "C04", "gen", &strategy, &check, cases, known);
    Report {
        id: "C04".into(),
        rule: "cases = finite-time blow-up (y'=y^2, y^3, 1+y^2, e^y with the span covering 0.5..3 times the blow-up time), stiff linear decay (rates to 1e4, lambda*T <= 3e4) with any method, time-discontinuous (square-wave forcing, coefficient jump) and state-discontinuous right-hand sides, and benign closed-form problems whose right-hand side starts returning NaN / +inf / -inf (all components or one) from a generated time, at x0, at xend, or when |y| exceeds a threshold; six methods, rtol 1e-3..1e-10, max_steps none / 1..10^4, with/without t_eval, dense output, an event function, first_step, max_step, min_step; x0 = 0 exactly in 1/6 of the cases; plus 'resonant' cases for Radau and BDF: y' = +-2^k y (analytic Jacobian) with the first step chosen so that the iteration matrix is exactly singular at the first attempt, compared with the same run whose first step is larger by 1e-6 (Success required, at most 3x+50 steps of the twin, max_steps = 5000). Oracle: the call returns within 2,000,000 right-hand-side evaluations (deterministic work bound, no clock) without panicking; Ok/Err; structurally valid prefix; no Success with non-finite states for error-controlled methods; no Success when the right-hand side is non-finite from an interior time to xend. Non-trivial = a non-finite right-hand-side value was returned, or status != Success, or a step was rejected. Distinct = distinct canonical JSON.".into(),
        assumptions: vec![
            "work bound: legitimate runs of these families need < 2e5 evaluations (observed), the bound is 2e6".into(),
            "RK4 (no error control) is only required to terminate without panicking".into(),
            "a hang that makes no IVP callback would be caught only by the outer watchdog (exit 2)".into(),
        ],
        min_nontrivial_frac: 0.5,
        stats,
        exhaustive: false,
    }
}
