//! Closed-form problem families (DESIGN §3.1): stacked scalar / planar blocks with exact
//! solutions in an intrinsic time tau >= 0, composed with a strictly monotone time-warp and a
//! well-conditioned linear mixing of the state.
//!
//!   tau(t) = | a (t - t0) + b sin(w (t - t0)) |,   u(t) = U(tau(t)),   y = S u
//!   y' = S g(S^-1 y) * dtau/dt
//!
//! Integrating backward in t runs the same intrinsic dynamics (tau grows away from t0 in either
//! direction), so every closed form is only ever evaluated for tau >= 0.

use crate::instr::Rhs;
use proptest::prelude::*;
use serde::{Deserialize, Serialize};

#[derive(Serialize, Deserialize, Clone, Debug)]
pub enum Block {
    /// u' = lam u
    Real { lam: f64, u0: f64 },
    /// u' = [[a,-b],[b,a]] u
    Pair { a: f64, b: f64, u0: [f64; 2] },
    /// u' = r u (1 - u/k)
    Logi { r: f64, k: f64, u0: f64 },
    /// u' = rho (1 + u^2)
    Tan { rho: f64, u0: f64 },
    /// u' = sg * rho * u^2   (sg = -1 contractive, +1 towards a pole)
    Recip { rho: f64, sg: f64, u0: f64 },
    /// u' = a u - c u^3
    Bern3 { a: f64, c: f64, u0: f64 },
    /// x' = x(1-r^2) - w y, y' = y(1-r^2) + w x
    Polar { w: f64, u0: [f64; 2] },
    /// u' = c
    Const { c: f64, u0: f64 },
}

impl Block {
    pub fn dim(&self) -> usize {
        match self {
            Block::Pair { .. } | Block::Polar { .. } => 2,
            _ => 1,
        }
    }
    pub fn u0(&self, out: &mut Vec<f64>) {
        match self {
            Block::Real { u0, .. }
            | Block::Logi { u0, .. }
            | Block::Tan { u0, .. }
            | Block::Recip { u0, .. }
            | Block::Bern3 { u0, .. }
            | Block::Const { u0, .. } => out.push(*u0),
            Block::Pair { u0, .. } | Block::Polar { u0, .. } => {
                out.push(u0[0]);
                out.push(u0[1]);
            }
        }
    }
    /// exact U(tau)
    pub fn exact(&self, tau: f64, out: &mut Vec<f64>) {
        match self {
            Block::Real { lam, u0 } => out.push(u0 * (lam * tau).exp()),
            Block::Pair { a, b, u0 } => {
                let e = (a * tau).exp();
                let (s, c) = (b * tau).sin_cos();
                out.push(e * (c * u0[0] - s * u0[1]));
                out.push(e * (s * u0[0] + c * u0[1]));
            }
            Block::Logi { r, k, u0 } => {
                let e = (-r * tau).exp();
                // u = k u0 / (u0 + (k - u0) e^{-r tau})
                out.push(k * u0 / (u0 + (k - u0) * e));
            }
            Block::Tan { rho, u0 } => out.push((rho * tau + u0.atan()).tan()),
            Block::Recip { rho, sg, u0 } => out.push(u0 / (1.0 - sg * rho * u0 * tau)),
            Block::Bern3 { a, c, u0 } => {
                let v0 = 1.0 / (u0 * u0);
                let v = (v0 - c / a) * (-2.0 * a * tau).exp() + c / a;
                out.push(u0.signum() / v.sqrt());
            }
            Block::Polar { w, u0 } => {
                let r0sq = u0[0] * u0[0] + u0[1] * u0[1];
                let rsq = 1.0 / (1.0 + (1.0 / r0sq - 1.0) * (-2.0 * tau).exp());
                let sc = (rsq / r0sq).sqrt();
                let (s, c) = (w * tau).sin_cos();
                out.push(sc * (c * u0[0] - s * u0[1]));
                out.push(sc * (s * u0[0] + c * u0[1]));
            }
            Block::Const { c, u0 } => out.push(u0 + c * tau),
        }
    }
    /// g(u) into out[..dim]
    pub fn g(&self, u: &[f64], out: &mut [f64]) {
        match self {
            Block::Real { lam, .. } => out[0] = lam * u[0],
            Block::Pair { a, b, .. } => {
                out[0] = a * u[0] - b * u[1];
                out[1] = b * u[0] + a * u[1];
            }
            Block::Logi { r, k, .. } => out[0] = r * u[0] * (1.0 - u[0] / k),
            Block::Tan { rho, .. } => out[0] = rho * (1.0 + u[0] * u[0]),
            Block::Recip { rho, sg, .. } => out[0] = sg * rho * u[0] * u[0],
            Block::Bern3 { a, c, .. } => out[0] = a * u[0] - c * u[0] * u[0] * u[0],
            Block::Polar { w, .. } => {
                let q = 1.0 - (u[0] * u[0] + u[1] * u[1]);
                out[0] = u[0] * q - w * u[1];
                out[1] = u[1] * q + w * u[0];
            }
            Block::Const { c, .. } => out[0] = *c,
        }
    }
    /// dg/du (dim x dim row-major) into out
    pub fn dg(&self, u: &[f64], out: &mut [f64]) {
        match self {
            Block::Real { lam, .. } => out[0] = *lam,
            Block::Pair { a, b, .. } => {
                out[0] = *a;
                out[1] = -*b;
                out[2] = *b;
                out[3] = *a;
            }
            Block::Logi { r, k, .. } => out[0] = r * (1.0 - 2.0 * u[0] / k),
            Block::Tan { rho, .. } => out[0] = 2.0 * rho * u[0],
            Block::Recip { rho, sg, .. } => out[0] = 2.0 * sg * rho * u[0],
            Block::Bern3 { a, c, .. } => out[0] = a - 3.0 * c * u[0] * u[0],
            Block::Polar { w, .. } => {
                let (x, y) = (u[0], u[1]);
                let q = 1.0 - (x * x + y * y);
                out[0] = q - 2.0 * x * x;
                out[1] = -w - 2.0 * x * y;
                out[2] = w - 2.0 * x * y;
                out[3] = q - 2.0 * y * y;
            }
            Block::Const { .. } => out[0] = 0.0,
        }
    }
    /// a-priori bound on the amplification of a perturbation over [0, tmax] (intrinsic time)
    pub fn kappa(&self, tmax: f64) -> f64 {
        match self {
            Block::Real { lam, .. } => (lam.max(0.0) * tmax).exp(),
            Block::Pair { a, .. } => (a.max(0.0) * tmax).exp(),
            Block::Logi { k, u0, .. } => {
                let c = k / u0 - 1.0;
                if c > 1.0 { (1.0 + c) * (1.0 + c) / (4.0 * c) } else { 1.0 }
            }
            Block::Tan { rho, u0 } => {
                let ue = (rho * tmax + u0.atan()).tan();
                (1.0 + ue * ue) / (1.0 + u0 * u0)
            }
            Block::Recip { rho, sg, u0 } => {
                if *sg < 0.0 { 1.0 } else {
                    let q = 1.0 / (1.0 - rho * u0.abs() * tmax);
                    q * q
                }
            }
            Block::Bern3 { a, c, u0 } => {
                let ustar = (a / c).sqrt();
                (1.5 * ustar / u0.abs()).max(1.0)
            }
            Block::Polar { u0, .. } => {
                let r0 = (u0[0] * u0[0] + u0[1] * u0[1]).sqrt();
                2.0 * (1.0 / r0).max(1.0)
            }
            Block::Const { .. } => 1.0,
        }
    }
    /// fastest rate (1/intrinsic time) present in the block: used to bound step sizes in the
    /// asymptotic-range checks
    pub fn rate(&self, tmax: f64) -> f64 {
        match self {
            Block::Real { lam, .. } => lam.abs(),
            Block::Pair { a, b, .. } => a.abs() + b.abs(),
            Block::Logi { r, k, u0 } => r * (1.0 + 2.0 * (u0 / k).max(1.0)),
            Block::Tan { rho, u0 } => {
                let ue = (rho * tmax + u0.atan()).tan();
                2.0 * rho * (1.0 + ue.abs().max(u0.abs()))
            }
            Block::Recip { rho, sg, u0 } => {
                let ue = if *sg < 0.0 { u0.abs() } else { u0.abs() / (1.0 - rho * u0.abs() * tmax) };
                2.0 * rho * ue
            }
            Block::Bern3 { a, c, u0 } => a + 3.0 * c * u0.abs().max((a / c).sqrt()).powi(2),
            Block::Polar { w, u0 } => {
                let r0sq = u0[0] * u0[0] + u0[1] * u0[1];
                w.abs() + 1.0 + 3.0 * r0sq.max(1.0)
            }
            Block::Const { .. } => 0.0,
        }
    }
    pub fn is_linear(&self) -> bool {
        matches!(self, Block::Real { .. } | Block::Pair { .. })
    }
}

/// time warp: intrinsic duration theta, k sine periods over the span, relative amplitude beta
#[derive(Serialize, Deserialize, Clone, Debug)]
pub struct Warp {
    pub theta: f64,
    pub k: u8,
    pub beta: f64,
}

/// y = S u:  S = D2 * G_m ... G_1 * D1 is built from Givens rotations (i,j,angle) and diagonal scalings
#[derive(Serialize, Deserialize, Clone, Debug)]
pub struct Mix {
    pub rot: Vec<(usize, usize, f64)>,
    pub scale: Vec<f64>,
}

#[derive(Serialize, Deserialize, Clone, Debug)]
pub struct ProbSpec {
    pub blocks: Vec<Block>,
    pub warp: Warp,
    pub mix: Option<Mix>,
    /// the whole state is multiplied by 2^mag2 (an exact change of units: y = 2^mag2 * S u)
    #[serde(default)]
    pub mag2: i32,
}

/// A spec instantiated on a concrete span.
pub struct Prob {
    pub spec: ProbSpec,
    pub n: usize,
    pub x0: f64,
    pub xend: f64,
    pub dir: f64,
    a: f64,
    b: f64,
    w: f64,
    pub s: Vec<f64>,    // n*n row-major
    pub sinv: Vec<f64>, // n*n
    pub conds: f64,
    offs: Vec<usize>,
    /// the state is S u with S != identity (a mixing and/or the magnitude factor)
    use_s: bool,
    /// 2^mag2: magnitude of the solution's units
    pub mag: f64,
}

fn matmul(a: &[f64], b: &[f64], n: usize) -> Vec<f64> {
    let mut c = vec![0.0; n * n];
    for i in 0..n {
        for k in 0..n {
            let aik = a[i * n + k];
            if aik == 0.0 {
                continue;
            }
            for j in 0..n {
                c[i * n + j] += aik * b[k * n + j];
            }
        }
    }
    c
}

impl Prob {
    pub fn new(spec: &ProbSpec, x0: f64, xend: f64) -> Prob {
        let n: usize = spec.blocks.iter().map(|b| b.dim()).sum();
        let span = (xend - x0).abs();
        let dir = if xend >= x0 { 1.0 } else { -1.0 };
        // infinite span: unit intrinsic speed, no warp
        let (a, b, w) = if span.is_finite() && span > 0.0 {
            let a = spec.warp.theta / span;
            if spec.warp.k == 0 {
                (a, 0.0, 0.0)
            } else {
                let w = 2.0 * std::f64::consts::PI * spec.warp.k as f64 / span;
                (a, spec.warp.beta * a / w, w)
            }
        } else {
            (1.0, 0.0, 0.0)
        };
        let mut s = vec![0.0; n * n];
        let mut sinv = vec![0.0; n * n];
        for i in 0..n {
            s[i * n + i] = 1.0;
            sinv[i * n + i] = 1.0;
        }
        let mut conds = 1.0;
        if let Some(m) = &spec.mix {
            if n >= 1 {
                // S = D * G_m ... G_1 ; Sinv = G_1^T ... G_m^T * D^-1
                for &(i, j, ang) in &m.rot {
                    if n < 2 {
                        break;
                    }
                    let (i, j) = (i % n, j % n);
                    if i == j {
                        continue;
                    }
                    let (sn, cs) = ang.sin_cos();
                    let mut g = vec![0.0; n * n];
                    for k in 0..n {
                        g[k * n + k] = 1.0;
                    }
                    g[i * n + i] = cs;
                    g[j * n + j] = cs;
                    g[i * n + j] = -sn;
                    g[j * n + i] = sn;
                    let mut gt = g.clone();
                    gt[i * n + j] = sn;
                    gt[j * n + i] = -sn;
                    s = matmul(&g, &s, n);
                    sinv = matmul(&sinv, &gt, n);
                }
                let mut dmin = f64::INFINITY;
                let mut dmax: f64 = 0.0;
                for i in 0..n {
                    let d = m.scale.get(i).copied().unwrap_or(1.0);
                    dmin = dmin.min(d);
                    dmax = dmax.max(d);
                    for j in 0..n {
                        s[i * n + j] *= d;
                        sinv[j * n + i] /= d;
                    }
                }
                // inf-norm condition estimate: rotations are orthogonal (2-norm 1, inf-norm <= sqrt n)
                conds = (dmax / dmin) * (n as f64);
            }
        }
        let mut offs = Vec::new();
        let mut o = 0;
        for bl in &spec.blocks {
            offs.push(o);
            o += bl.dim();
        }
        let mag = crate::instr::ldexp(1.0, spec.mag2);
        if spec.mag2 != 0 {
            for v in s.iter_mut() {
                *v *= mag;
            }
            for v in sinv.iter_mut() {
                *v /= mag;
            }
        }
        Prob { spec: spec.clone(), n, x0, xend, dir, a, b, w, s, sinv, conds, offs, use_s: spec.mix.is_some() || spec.mag2 != 0, mag }
    }

    #[inline]
    pub fn tau(&self, t: f64) -> f64 {
        let d = t - self.x0;
        let s = self.a * d + self.b * (self.w * d).sin();
        s * self.dir
    }
    #[inline]
    pub fn dtau(&self, t: f64) -> f64 {
        let d = t - self.x0;
        (self.a + self.b * self.w * (self.w * d).cos()) * self.dir
    }
    pub fn tau_max(&self) -> f64 {
        if self.xend.is_finite() { self.spec.warp.theta * 1.13 } else { f64::INFINITY }
    }
    pub fn y0(&self) -> Vec<f64> {
        let mut u = Vec::new();
        for b in &self.spec.blocks {
            b.u0(&mut u);
        }
        self.mul_s(&u)
    }
    pub fn mul_s(&self, u: &[f64]) -> Vec<f64> {
        let n = self.n;
        if !self.use_s {
            return u.to_vec();
        }
        let mut y = vec![0.0; n];
        for i in 0..n {
            let mut acc = 0.0;
            for j in 0..n {
                acc += self.s[i * n + j] * u[j];
            }
            y[i] = acc;
        }
        y
    }
    pub fn exact(&self, t: f64) -> Vec<f64> {
        let tau = self.tau(t);
        let mut u = Vec::new();
        for b in &self.spec.blocks {
            b.exact(tau, &mut u);
        }
        self.mul_s(&u)
    }
    /// amplification bound: cond(S) * max block kappa
    pub fn kappa(&self) -> f64 {
        let tm = self.tau_max();
        let k = self.spec.blocks.iter().fold(1.0f64, |m, b| m.max(b.kappa(tm)));
        k * self.conds
    }
    /// fastest rate in units of 1/t
    pub fn rate_t(&self) -> f64 {
        let tm = self.tau_max();
        let r = self.spec.blocks.iter().fold(0.0f64, |m, b| m.max(b.rate(tm)));
        r * (self.a.abs() + (self.b * self.w).abs()) + self.w
    }
    pub fn is_linear(&self) -> bool {
        self.spec.blocks.iter().all(|b| b.is_linear())
    }
    pub fn is_autonomous_linear(&self) -> bool {
        self.is_linear() && self.spec.warp.k == 0
    }
}

impl Rhs for Prob {
    fn dim(&self) -> usize {
        self.n
    }
    fn f(&self, t: f64, y: &[f64], dy: &mut [f64]) {
        let n = self.n;
        let dt = self.dtau(t);
        let mut gu = [0.0f64; 16];
        if !self.use_s {
            for (bl, &o) in self.spec.blocks.iter().zip(&self.offs) {
                bl.g(&y[o..o + bl.dim()], &mut gu[o..o + bl.dim()]);
            }
            for i in 0..n {
                dy[i] = gu[i] * dt;
            }
            return;
        }
        let mut u = [0.0f64; 16];
        for i in 0..n {
            let mut acc = 0.0;
            for j in 0..n {
                acc += self.sinv[i * n + j] * y[j];
            }
            u[i] = acc;
        }
        for (bl, &o) in self.spec.blocks.iter().zip(&self.offs) {
            bl.g(&u[o..o + bl.dim()], &mut gu[o..o + bl.dim()]);
        }
        for i in 0..n {
            let mut acc = 0.0;
            for j in 0..n {
                acc += self.s[i * n + j] * gu[j];
            }
            dy[i] = acc * dt;
        }
    }
    fn has_jac(&self) -> bool {
        true
    }
    fn jac_dense(&self, t: f64, y: &[f64], jm: &mut [f64]) {
        let n = self.n;
        let dt = self.dtau(t);
        let mut u = vec![0.0f64; n];
        if !self.use_s {
            u.copy_from_slice(y);
        } else {
            for i in 0..n {
                let mut acc = 0.0;
                for j in 0..n {
                    acc += self.sinv[i * n + j] * y[j];
                }
                u[i] = acc;
            }
        }
        let mut g = vec![0.0f64; n * n];
        for (bl, &o) in self.spec.blocks.iter().zip(&self.offs) {
            let d = bl.dim();
            let mut blk = [0.0f64; 4];
            bl.dg(&u[o..o + d], &mut blk);
            for r in 0..d {
                for c in 0..d {
                    g[(o + r) * n + o + c] = blk[r * d + c] * dt;
                }
            }
        }
        if !self.use_s {
            jm.copy_from_slice(&g);
        } else {
            let t1 = matmul(&self.s, &g, n);
            let t2 = matmul(&t1, &self.sinv, n);
            jm.copy_from_slice(&t2);
        }
    }
}

// ---------------------------------------------------------------------------------------------
// strategies

/// dyadic-ish "nice" float in [lo, hi]
pub fn fr(lo: f64, hi: f64) -> impl Strategy<Value = f64> {
    (0u32..=1_000_000u32).prop_map(move |k| lo + (hi - lo) * (k as f64) / 1.0e6)
}

fn sgn() -> impl Strategy<Value = f64> {
    prop_oneof![Just(1.0), Just(-1.0)]
}

/// one block, valid for intrinsic times up to 1.2*theta
pub fn block(theta: f64) -> BoxedStrategy<Block> {
    let tm = 1.2 * theta;
    prop_oneof![
        3 => (fr(-1.5, 0.15), fr(0.2, 2.0), sgn()).prop_map(|(lam, u, s)| Block::Real { lam, u0: s * u }),
        3 => (fr(-1.0, 0.1), fr(0.0, 4.0), fr(-2.0, 2.0), fr(0.3, 2.0))
            .prop_map(|(a, b, x, y)| Block::Pair { a, b, u0: [x, y] }),
        1 => (fr(0.2, 2.0), fr(0.5, 2.0), fr(0.05, 2.0)).prop_map(|(r, k, q)| Block::Logi { r, k, u0: q * k }),
        1 => (fr(-2.0, 2.0), fr(0.1, 1.0)).prop_map(move |(u0, q): (f64, f64)| {
            let dist = std::f64::consts::FRAC_PI_2 - u0.atan();
            Block::Tan { rho: 0.6 * dist * q / tm, u0 }
        }),
        1 => (fr(0.2, 2.0), fr(0.1, 1.0), sgn()).prop_map(move |(u0, q, sg)| {
            // sg=+1: rho*u0*tmax <= 0.6 ; sg=-1: any
            Block::Recip { rho: 0.6 * q / (u0 * tm), sg, u0 }
        }),
        1 => (fr(0.2, 2.0), fr(0.5, 2.0), fr(0.1, 2.0)).prop_map(|(a, us, q)| {
            let c = a / (us * us);
            Block::Bern3 { a, c, u0: q * us }
        }),
        1 => (fr(-4.0, 4.0), fr(0.2, 2.0), fr(0.0, 6.283)).prop_map(|(w, r0, ph)| Block::Polar { w, u0: [r0 * ph.cos(), r0 * ph.sin()] }),
    ]
    .boxed()
}

pub fn linear_block() -> BoxedStrategy<Block> {
    prop_oneof![
        (fr(-1.5, 0.15), fr(0.2, 2.0), sgn()).prop_map(|(lam, u, s)| Block::Real { lam, u0: s * u }),
        (fr(-1.0, 0.1), fr(0.0, 4.0), fr(-2.0, 2.0), fr(0.3, 2.0))
            .prop_map(|(a, b, x, y)| Block::Pair { a, b, u0: [x, y] }),
    ]
    .boxed()
}

pub fn warp(theta_lo: f64, theta_hi: f64) -> impl Strategy<Value = Warp> {
    (fr(theta_lo, theta_hi), 0u8..=3, fr(-0.75, 0.75)).prop_map(|(theta, k, beta)| Warp { theta, k, beta })
}

pub fn mix(nmax: usize) -> impl Strategy<Value = Option<Mix>> {
    prop_oneof![
        1 => Just(None),
        2 => (proptest::collection::vec((0usize..8, 0usize..8, fr(-3.1, 3.1)), 0..6),
              proptest::collection::vec(fr(0.5, 2.0), nmax..=nmax))
            .prop_map(|(rot, scale)| Some(Mix { rot, scale })),
    ]
}

/// general closed-form problem, total dimension <= nmax
pub fn prob_spec(nmax: usize, theta_lo: f64, theta_hi: f64) -> BoxedStrategy<ProbSpec> {
    warp(theta_lo, theta_hi)
        .prop_flat_map(move |w| {
            let th = w.theta;
            (Just(w), proptest::collection::vec(block(th), 1..=nmax.max(1)), mix(nmax))
        })
        .prop_map(move |(warp, mut blocks, mix)| {
            // trim to dimension nmax
            let mut d = 0;
            let mut keep = 0;
            for b in &blocks {
                if d + b.dim() > nmax {
                    break;
                }
                d += b.dim();
                keep += 1;
            }
            if keep == 0 {
                blocks = vec![Block::Real { lam: -0.5, u0: 1.0 }];
            } else {
                blocks.truncate(keep);
            }
            ProbSpec { blocks, warp, mix, mag2: 0 }
        })
        .boxed()
}

/// linear homogeneous problems (optionally autonomous: no warp)
pub fn linear_spec(nmax: usize, autonomous: bool, theta_lo: f64, theta_hi: f64) -> BoxedStrategy<ProbSpec> {
    (warp(theta_lo, theta_hi), proptest::collection::vec(linear_block(), 1..=nmax.max(1)), mix(nmax))
        .prop_map(move |(mut warp, mut blocks, mix)| {
            if autonomous {
                warp.k = 0;
            }
            let mut d = 0;
            let mut keep = 0;
            for b in &blocks {
                if d + b.dim() > nmax {
                    break;
                }
                d += b.dim();
                keep += 1;
            }
            if keep == 0 {
                blocks = vec![Block::Real { lam: -0.5, u0: 1.0 }];
            } else {
                blocks.truncate(keep);
            }
            ProbSpec { blocks, warp, mix, mag2: 0 }
        })
        .boxed()
}

/// span: (x0, xend) with |x0| <= 100, |xend-x0| in [0.1, 20], either direction
pub fn span_std() -> impl Strategy<Value = (f64, f64)> {
    (fr(-100.0, 100.0), fr(0.1, 20.0), any::<bool>(), 0u8..4).prop_map(|(x0, len, back, z)| {
        let x0 = if z == 0 { 0.0 } else { x0 };
        if back { (x0, x0 - len) } else { (x0, x0 + len) }
    })
}

#[derive(Serialize, Deserialize, Clone, Copy, Debug, PartialEq, Eq)]
pub enum Meth {
    RK4,
    RK23,
    DOPRI5,
    DOP853,
    RADAU,
    BDF,
}

impl Meth {
    pub fn to_ivp(self) -> ivp::solve::Method {
        use ivp::solve::Method as M;
        match self {
            Meth::RK4 => M::RK4,
            Meth::RK23 => M::RK23,
            Meth::DOPRI5 => M::DOPRI5,
            Meth::DOP853 => M::DOP853,
            Meth::RADAU => M::RADAU,
            Meth::BDF => M::BDF,
        }
    }
    pub fn name(self) -> &'static str {
        match self {
            Meth::RK4 => "RK4",
            Meth::RK23 => "RK23",
            Meth::DOPRI5 => "DOPRI5",
            Meth::DOP853 => "DOP853",
            Meth::RADAU => "RADAU",
            Meth::BDF => "BDF",
        }
    }
    pub fn implicit(self) -> bool {
        matches!(self, Meth::RADAU | Meth::BDF)
    }
    pub fn adaptive(self) -> bool {
        self != Meth::RK4
    }
}

pub fn any_method() -> impl Strategy<Value = Meth> {
    prop_oneof![
        Just(Meth::RK4),
        Just(Meth::RK23),
        Just(Meth::DOPRI5),
        Just(Meth::DOP853),
        Just(Meth::RADAU),
        Just(Meth::BDF)
    ]
}

pub fn adaptive_method() -> impl Strategy<Value = Meth> {
    prop_oneof![Just(Meth::RK23), Just(Meth::DOPRI5), Just(Meth::DOP853), Just(Meth::RADAU), Just(Meth::BDF)]
}
