//! Shared generators for solver configurations.

use crate::instr::{Ev, EvSpec};
use crate::problems::*;
use crate::run::{RunOpts, Tol};
use crate::util::ulp;
use proptest::prelude::*;
use serde::{Deserialize, Serialize};

/// 10^U[lo,hi]
pub fn log10(lo: f64, hi: f64) -> impl Strategy<Value = f64> {
    fr(lo, hi).prop_map(|e| 10f64.powf(e))
}

/// scalar tolerance pair (rtol in 10^-[lo,hi], atol = rtol * 10^U[-3,0])
pub fn tol_scalar(lo: f64, hi: f64) -> impl Strategy<Value = (Tol, Tol)> {
    (fr(lo, hi), fr(-3.0, 0.0)).prop_map(|(e, q)| {
        let r = 10f64.powf(-e);
        (Tol::S(r), Tol::S(r * 10f64.powf(q)))
    })
}

/// scalar or per-component tolerances for dimension n
pub fn tols(n: usize, lo: f64, hi: f64) -> BoxedStrategy<(Tol, Tol)> {
    prop_oneof![
        2 => tol_scalar(lo, hi).boxed(),
        1 => (fr(lo, hi), proptest::collection::vec(fr(-3.0, 0.0), n..=n)).prop_map(|(e, qs)| {
            let r = 10f64.powf(-e);
            (Tol::S(r), Tol::V(qs.iter().map(|q| r * 10f64.powf(*q)).collect()))
        }).boxed(),
        1 => (fr(lo, hi), proptest::collection::vec(fr(-1.5, 0.0), n..=n), proptest::collection::vec(fr(-3.0, 0.0), n..=n)).prop_map(|(e, ps, qs)| {
            let r = 10f64.powf(-e);
            (Tol::V(ps.iter().map(|p| r * 10f64.powf(*p)).collect()),
             Tol::V(qs.iter().map(|q| r * 10f64.powf(*q)).collect()))
        }).boxed(),
    ]
    .boxed()
}

/// An integration interval, possibly tiny / huge.  Guarantees |span| >= 4e-12 and
/// |span|/100 >= 64 ulp(max |x|) so that a fixed RK4 step can advance.
#[derive(Serialize, Deserialize, Clone, Debug)]
pub struct Span {
    pub x0: f64,
    pub xend: f64,
}

impl Span {
    pub fn dir(&self) -> f64 {
        if self.xend >= self.x0 { 1.0 } else { -1.0 }
    }
    pub fn len(&self) -> f64 {
        (self.xend - self.x0).abs()
    }
}

pub fn mk_span(x0: f64, mag: f64, back: bool) -> Span {
    // (solve_ivp treats |xend - x0| < 1e-15 as the zero-length run)
    let mag = mag.max(2e-15);
    let m = x0.abs() + mag;
    let x0 = if mag < 6400.0 * ulp(m) { 0.0 } else { x0 };
    let xend = if back { x0 - mag } else { x0 + mag };
    Span { x0, xend }
}

/// spans over many magnitudes: 10^U[elo, ehi]
pub fn span_wide(elo: f64, ehi: f64) -> impl Strategy<Value = Span> {
    (prop_oneof![Just(0.0), fr(-1000.0, 1000.0), fr(-3.0, 3.0)], fr(elo, ehi), any::<bool>())
        .prop_map(|(x0, e, back)| mk_span(x0, 10f64.powf(e), back))
}

/// spans on a (sub-)picosecond time axis starting at 0: 10^U[-14.5, -8]
pub fn span_tiny() -> impl Strategy<Value = Span> {
    (fr(-14.5, -8.0), any::<bool>()).prop_map(|(e, back)| mk_span(0.0, 10f64.powf(e), back))
}

/// spans far from the origin (epoch seconds and beyond): |x0| = 10^U[5,12], length from 8 to 1e5 ulps of x0.
/// Every absolute constant of the crate (1e-12 slack, 1e-6 default steps) is far below the spacing of the time axis here,
/// and every "x * uround" guard is near its limit.  The length is bounded because no solver takes steps below about
/// 10 ulps of x, so a run has at most 1e4 steps -- whereas on a long interval the rounding of t makes a time-dependent
/// right-hand side noisy and a tight tolerance legitimately unaffordable.  (Not for RK4 below 640 000 ulps.)
pub fn span_offset() -> impl Strategy<Value = Span> {
    (fr(5.0, 12.0), any::<bool>(), fr(0.9, 5.0), any::<bool>()).prop_map(|(e, neg, le, back)| {
        let x0 = if neg { -(10f64.powf(e)) } else { 10f64.powf(e) };
        let len = ulp(x0.abs()) * 10f64.powf(le);
        Span { x0, xend: if back { x0 - len } else { x0 + len } }
    })
}

/// ordinary lengths far from the origin: |x0| = 10^U[5,12], length 0.1..20 (at least 6400 ulps of x0, else x0 = 0)
pub fn span_far() -> impl Strategy<Value = Span> {
    (fr(5.0, 12.0), any::<bool>(), fr(0.1, 20.0), any::<bool>()).prop_map(|(e, neg, len, back)| mk_span(if neg { -(10f64.powf(e)) } else { 10f64.powf(e) }, len, back))
}

/// whether a fixed-step RK4 with span/100 (or finer) steps can advance on this span
pub fn rk4_can_step(sp: &Span) -> bool {
    sp.len() >= 640_000.0 * ulp(sp.x0.abs().max(sp.xend.abs()))
}

/// ordinary spans
pub fn span_mid() -> impl Strategy<Value = Span> {
    (prop_oneof![Just(0.0), fr(-100.0, 100.0)], fr(0.1, 20.0), any::<bool>()).prop_map(|(x0, len, back)| mk_span(x0, len, back))
}

/// requested output times as fractions of the span (sorted, may contain duplicates, 0 and 1)
pub fn t_eval_fracs(maxlen: usize) -> impl Strategy<Value = Vec<f64>> {
    proptest::collection::vec(prop_oneof![8 => fr(0.0, 1.0), 1 => Just(0.0), 1 => Just(1.0)], 0..=maxlen).prop_map(|mut v| {
        v.sort_by(|a, b| a.partial_cmp(b).unwrap());
        v
    })
}

pub fn fracs_to_times(sp: &Span, fr: &[f64]) -> Vec<f64> {
    let d = sp.xend - sp.x0;
    fr.iter()
        .map(|&f| {
            if f >= 1.0 {
                sp.xend
            } else if f <= 0.0 {
                sp.x0
            } else {
                let t = sp.x0 + f * d;
                // stay inside the closed span
                if sp.dir() > 0.0 { t.min(sp.xend).max(sp.x0) } else { t.max(sp.xend).min(sp.x0) }
            }
        })
        .collect()
}

/// event functions for a problem of dimension n whose solution is O(1); thresholds relative
pub fn event_spec(n: usize, terminal: bool) -> impl Strategy<Value = EvSpec> {
    let g = prop_oneof![
        3 => (proptest::collection::vec(fr(-1.0, 1.0), n..=n), fr(-1.5, 1.5)).prop_map(|(a, c)| Ev::Affine { a, bt: 0.0, c }),
        2 => (0..n, 0..n, fr(-1.0, 1.0)).prop_map(|(i, j, c)| Ev::Bilinear { i, j, c }),
        2 => fr(0.02, 0.98).prop_map(|f| Ev::Time { c: f }), // fraction of the span; resolved later
        1 => (fr(1.0, 12.0), fr(-0.8, 0.8), 0..n).prop_map(|(omega, c, i)| Ev::SinT { omega, t0: 0.0, c, i }),
    ];
    (g, -1i8..=1, 1usize..=3).prop_map(move |(g, dir, cnt)| EvSpec { g, dir, terminal: if terminal { Some(cnt) } else { None } })
}

/// resolve span-relative event parameters (Time fraction -> absolute time; SinT frequency per span)
pub fn resolve_events(evs: &[EvSpec], sp: &Span) -> Vec<EvSpec> {
    let len = if sp.len().is_finite() { sp.len() } else { 1.0 };
    evs.iter()
        .map(|e| {
            let g = match &e.g {
                Ev::Time { c } => Ev::Time { c: sp.x0 + c * (sp.dir() * len) },
                Ev::SinT { omega, c, i, .. } => Ev::SinT { omega: omega / len, t0: sp.x0, c: *c, i: *i },
                other => other.clone(),
            };
            EvSpec { g, dir: e.dir, terminal: e.terminal }
        })
        .collect()
}

pub fn basic_opts(method: Meth, tol: &(Tol, Tol)) -> RunOpts {
    RunOpts { method, rtol: tol.0.clone(), atol: tol.1.clone(), first_step: None, max_step: None, max_steps: None, t_eval: None, dense: false }
}

// ---------------------------------------------------------------------------------------------
// two-phase placement of times relative to the solver's own accepted-step grid

#[derive(Serialize, Deserialize, Clone, Debug)]
pub enum Place {
    /// fraction of the span
    Frac(f64),
    /// grid point number floor(k/65536 * m), shifted by DELTAS[delta] in the direction of integration
    Near { k: u16, delta: u8 },
    /// inside step k at relative position f
    Mid { k: u16, f: f64 },
    Start,
    End,
    /// grid point number min(i, m-1) (i = 1: the end of the first accepted step), shifted by DELTAS[delta]
    NearIdx { i: u8, delta: u8 },
}

pub const DELTAS: [f64; 9] = [0.0, 1e-13, -1e-13, 5e-13, -5e-13, 2e-12, -2e-12, 1e-9, -1e-9];

pub fn place() -> impl Strategy<Value = Place> {
    prop_oneof![
        3 => fr(0.0, 1.0).prop_map(Place::Frac),
        5 => (any::<u16>(), 0u8..9).prop_map(|(k, delta)| Place::Near { k, delta }),
        3 => (any::<u16>(), fr(0.02, 0.98)).prop_map(|(k, f)| Place::Mid { k, f }),
        1 => Just(Place::Start),
        1 => Just(Place::End),
    ]
}

pub fn places(maxlen: usize) -> impl Strategy<Value = Vec<Place>> {
    proptest::collection::vec(place(), 0..=maxlen)
}

/// grid: accepted-step end points of the plain run (grid[0] = x0)
pub fn resolve_places(pl: &[Place], grid: &[f64], sp: &Span) -> Vec<f64> {
    let d = sp.dir();
    let m = grid.len();
    let clampf = |t: f64| if d > 0.0 { t.max(sp.x0).min(sp.xend) } else { t.min(sp.x0).max(sp.xend) };
    let mut v: Vec<f64> = pl
        .iter()
        .map(|p| match p {
            Place::Frac(f) => clampf(sp.x0 + f * (sp.xend - sp.x0)),
            Place::Near { k, delta } => {
                let i = crate::util::pick(*k, m.max(1));
                let g = if m > 0 { grid[i] } else { sp.x0 };
                clampf(g + d * DELTAS[*delta as usize % 9] * (1.0f64).max(g.abs() / 64.0))
            }
            Place::Mid { k, f } => {
                if m < 2 {
                    clampf(sp.x0 + f * (sp.xend - sp.x0))
                } else {
                    let i = crate::util::pick(*k, m - 1);
                    clampf(grid[i] + f * (grid[i + 1] - grid[i]))
                }
            }
            Place::Start => sp.x0,
            Place::End => sp.xend,
            Place::NearIdx { i, delta } => {
                let g = if m > 0 { grid[(*i as usize).min(m - 1)] } else { sp.x0 };
                clampf(g + d * DELTAS[*delta as usize % 9] * (1.0f64).max(g.abs() / 64.0))
            }
        })
        .collect();
    v.sort_by(|a, b| (a * d).partial_cmp(&(b * d)).unwrap());
    v
}
