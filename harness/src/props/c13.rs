//! C13 — Equivalent problems get equivalent answers (metamorphic relations R1..R4).

use crate::engine::*;
use crate::gen::*;
use crate::instr::*;
use crate::problems::*;
use crate::run::*;
use crate::util::*;
use ivp::prelude::{Solution, Status};
use proptest::prelude::*;
use serde::{Deserialize, Serialize};
use serde_json::json;

#[derive(Serialize, Deserialize, Clone, Debug)]
pub enum Rel {
    /// time reflection, optional affine event a.y + bt*t - c
    Reflect { ev: Option<(Vec<f64>, f64, f64)> },
    /// time reflection with two-phase event recipes (several functions, terminal ones, several in one step)
    ReflectEvents { recipes: Vec<crate::evgen::EvRecipe> },
    /// state and atol scaled by 2^k (linear homogeneous problem)
    Scale { k: i32 },
    /// scalar tolerance written as a constant vector
    TolVec,
    /// m independent identical copies (first_step given)
    Copies { m: usize },
    /// copies of a stiff relaxation problem started on its slow manifold with a generated (often far too
    /// large) first step, Radau or BDF with the analytic Jacobian: whether the first trial step is accepted
    /// must not depend on the number of copies
    CopiesStiff { lam_exp: Vec<f64>, m: usize, fs_exp: f64 },
}

#[derive(Serialize, Deserialize, Clone, Debug)]
pub struct Case {
    pub prob: ProbSpec,
    pub span: Span,
    pub method: Meth,
    pub rtol: f64,
    pub atol: f64,
    pub analytic_jac: bool,
    pub first_step: f64,
    pub rel: Rel,
}

struct Reflect<'a>(&'a Prob);
impl<'a> Rhs for Reflect<'a> {
    fn dim(&self) -> usize {
        self.0.n
    }
    fn f(&self, s: f64, z: &[f64], dz: &mut [f64]) {
        self.0.f(-s, z, dz);
        for v in dz.iter_mut() {
            *v = -*v;
        }
    }
    fn has_jac(&self) -> bool {
        true
    }
    fn jac_dense(&self, s: f64, z: &[f64], j: &mut [f64]) {
        self.0.jac_dense(-s, z, j);
        for v in j.iter_mut() {
            *v = -*v;
        }
    }
}

struct Copies<'a>(&'a dyn Rhs, usize);
impl<'a> Rhs for Copies<'a> {
    fn dim(&self) -> usize {
        self.0.dim() * self.1
    }
    fn f(&self, t: f64, y: &[f64], dy: &mut [f64]) {
        let n = self.0.dim();
        for q in 0..self.1 {
            self.0.f(t, &y[q * n..(q + 1) * n], &mut dy[q * n..(q + 1) * n]);
        }
    }
    fn has_jac(&self) -> bool {
        true
    }
    fn jac_dense(&self, t: f64, y: &[f64], j: &mut [f64]) {
        let n = self.0.dim();
        let nn = n * self.1;
        for v in j.iter_mut() {
            *v = 0.0;
        }
        let mut blk = vec![0.0; n * n];
        for q in 0..self.1 {
            self.0.jac_dense(t, &y[q * n..(q + 1) * n], &mut blk);
            for r in 0..n {
                for c in 0..n {
                    j[(q * n + r) * nn + q * n + c] = blk[r * n + c];
                }
            }
        }
    }
}

/// stiff relaxation onto y = cos t, which is also an exact solution: y_i' = -lam_i (y_i - cos t) - sin t
struct Relax {
    lams: Vec<f64>,
}
impl Rhs for Relax {
    fn dim(&self) -> usize {
        self.lams.len()
    }
    fn f(&self, t: f64, y: &[f64], dy: &mut [f64]) {
        for (i, l) in self.lams.iter().enumerate() {
            dy[i] = -l * (y[i] - t.cos()) - t.sin();
        }
    }
    fn has_jac(&self) -> bool {
        true
    }
    fn jac_dense(&self, _t: f64, _y: &[f64], j: &mut [f64]) {
        let n = self.lams.len();
        for v in j.iter_mut() {
            *v = 0.0;
        }
        for (i, l) in self.lams.iter().enumerate() {
            j[i * n + i] = -l;
        }
    }
}

fn run_one(rhs: &dyn Rhs, evs: &[EvSpec], c: &Case, x0: f64, xend: f64, y0: &[f64], rtol: Tol, atol: Tol, first_step: Option<f64>) -> Result<Solution, String> {
    let mut instr = Instr::new(rhs, evs);
    instr.dir = if xend >= x0 { 1.0 } else { -1.0 };
    instr.use_jac = c.analytic_jac;
    let o = RunOpts { method: c.method, rtol, atol, first_step, max_step: None, max_steps: None, t_eval: None, dense: false };
    match solve(&instr, x0, xend, y0, &o) {
        RunResult::Ok(s) => Ok(s),
        other => Err(other.describe()),
    }
}

fn counters(s: &Solution) -> (usize, usize, usize, usize, usize, usize, &'static str) {
    (s.nfev, s.njev, s.nlu, s.nstep, s.naccpt, s.nrejct, status_name(s.status))
}

pub fn check(c: &Case) -> Outcome {
    let sp = &c.span;
    let prob = Prob::new(&c.prob, sp.x0, sp.xend);
    let n = prob.n;
    let y0 = prob.y0();
    let name = c.method.name();
    let none: Vec<EvSpec> = vec![];
    let fs_rk4 = if c.method == Meth::RK4 { Some(c.first_step.clamp(0.004, 0.05) * sp.len() * sp.dir()) } else { None };
    let nontriv = |s: &Solution| s.naccpt >= 5 && (s.nrejct >= 1 || s.naccpt >= 10);
    match &c.rel {
        Rel::Reflect { ev } => {
            let evs: Vec<EvSpec> = ev.iter().map(|(a, bt, cc)| { let mut a = a.clone(); a.resize(n, 0.3); EvSpec { g: Ev::Affine { a, bt: *bt / sp.len(), c: *cc + bt / sp.len() * sp.x0 }, dir: 0, terminal: None } }).collect();
            let evs_r: Vec<EvSpec> = evs.iter().map(|e| match &e.g { Ev::Affine { a, bt, c } => EvSpec { g: Ev::Affine { a: a.clone(), bt: -bt, c: *c }, dir: e.dir, terminal: None }, _ => unreachable!() }).collect();
            let a = match run_one(&prob, &evs, c, sp.x0, sp.xend, &y0, Tol::S(c.rtol), Tol::S(c.atol), fs_rk4) {
                Ok(s) => s,
                Err(e) => return Outcome::triv(format!("base-run:{}", e.chars().take(30).collect::<String>())),
            };
            let r = Reflect(&prob);
            let b = match run_one(&r, &evs_r, c, -sp.x0, -sp.xend, &y0, Tol::S(c.rtol), Tol::S(c.atol), fs_rk4.map(|h| -h)) {
                Ok(s) => s,
                Err(e) => return Outcome::viol(format!("{}: the problem solves but its time reflection gives {}", name, e)),
            };
            if counters(&a) != counters(&b) {
                return Outcome::viol(format!("{}: time reflection changes the statistics: {:?} vs {:?}", name, counters(&a), counters(&b)));
            }
            let tneg: Vec<f64> = b.t.iter().map(|t| -t).collect();
            if !bits_eq(&a.t, &tneg) || !bits_eq2(&a.y, &b.y) {
                let k = a.t.iter().zip(&tneg).position(|(x, y)| x.to_bits() != y.to_bits());
                if std::env::var_os("VF_DEBUG").is_some() {
                    for (i, (ya, yb)) in a.y.iter().zip(&b.y).enumerate() {
                        if !bits_eq(ya, yb) {
                            eprintln!("sample {} t={:e}: {:?} vs {:?}", i, a.t[i], ya, yb);
                            break;
                        }
                    }
                }
                return Outcome::viol(format!("{}: the reflected problem's trajectory is not the mirror image (first differing time index {:?}; {} vs {} samples)", name, k, a.t.len(), b.t.len()));
            }
            for (ta, tb) in a.t_events.iter().zip(&b.t_events) {
                if ta.len() != tb.len() {
                    return Outcome::viol(format!("{}: reflection changes the number of events: {} vs {}", name, ta.len(), tb.len()));
                }
                for (x, y) in ta.iter().zip(tb) {
                    if (x + y).abs() > 1e-11 + 8.0 * f64::EPSILON * x.abs() {
                        return Outcome::viol(format!("{}: event times do not mirror: {:e} vs {:e}", name, x, y));
                    }
                }
            }
            Outcome::pass(format!("{}:reflect", name), nontriv(&a), json!({"naccpt": a.naccpt, "nrejct": a.nrejct, "events": a.t_events.iter().map(|v| v.len()).sum::<usize>()}))
        }
        Rel::ReflectEvents { recipes } => {
            // phase 1: plain dense run gives the step grid on which the roots are placed
            let plain = {
                let mut instr = Instr::new(&prob, &none);
                instr.dir = sp.dir();
                instr.use_jac = c.analytic_jac;
                let o = RunOpts { method: c.method, rtol: Tol::S(c.rtol), atol: Tol::S(c.atol), first_step: fs_rk4, max_step: None, max_steps: None, t_eval: None, dense: true };
                match solve(&instr, sp.x0, sp.xend, &y0, &o) {
                    RunResult::Ok(s) if s.status == Status::Success => s,
                    other => return Outcome::triv(format!("plain-run:{}", other.describe().chars().take(30).collect::<String>())),
                }
            };
            let f = |t: f64| plain.sol(t).ok();
            let evs: Vec<EvSpec> = crate::evgen::resolve_recipes(recipes, &plain.t, sp, &f).into_iter().map(|(e, _)| e).collect();
            let evs_r: Vec<EvSpec> = evs.iter().map(|e| EvSpec { g: Ev::Mirror { g: Box::new(e.g.clone()) }, dir: e.dir, terminal: e.terminal }).collect();
            let a = match run_one(&prob, &evs, c, sp.x0, sp.xend, &y0, Tol::S(c.rtol), Tol::S(c.atol), fs_rk4) {
                Ok(s) => s,
                Err(e) => return Outcome::triv(format!("base-run:{}", e.chars().take(30).collect::<String>())),
            };
            let r = Reflect(&prob);
            let b = match run_one(&r, &evs_r, c, -sp.x0, -sp.xend, &y0, Tol::S(c.rtol), Tol::S(c.atol), fs_rk4.map(|h| -h)) {
                Ok(s) => s,
                Err(e) => return Outcome::viol(format!("{}: the problem with events solves but its time reflection gives {}", name, e)),
            };
            for (k, (ta, tb)) in a.t_events.iter().zip(&b.t_events).enumerate() {
                if ta.len() != tb.len() {
                    return Outcome::viol(format!("{}: event function {} ({:?}, terminal {:?}) is seen {} times going one way ({:?}) but {} times in the reflected problem ({:?}); status {} / {}", name, k, evs[k].g, evs[k].terminal, ta.len(), ta, tb.len(), tb, status_name(a.status), status_name(b.status)));
                }
                for (x, y) in ta.iter().zip(tb) {
                    if (x + y).abs() > 1e-11 + 8.0 * f64::EPSILON * x.abs() {
                        return Outcome::viol(format!("{}: event times of function {} do not mirror: {:e} vs {:e}", name, k, x, y));
                    }
                }
            }
            if a.status != b.status {
                return Outcome::viol(format!("{}: time reflection changes the status: {} vs {}", name, status_name(a.status), status_name(b.status)));
            }
            if a.t.len() != b.t.len() {
                return Outcome::viol(format!("{}: time reflection changes the number of samples: {} vs {}", name, a.t.len(), b.t.len()));
            }
            // all samples but a final terminal-event point are step ends: exact mirror images
            let m = if a.status == Status::UserInterrupt { a.t.len() - 1 } else { a.t.len() };
            let tneg: Vec<f64> = b.t.iter().map(|t| -t).collect();
            if !bits_eq(&a.t[..m], &tneg[..m]) || !bits_eq2(&a.y[..m], &b.y[..m]) {
                return Outcome::viol(format!("{}: with events, the reflected problem's accepted steps are not the mirror image ({} samples)", name, m));
            }
            if m < a.t.len() && (a.t[m] + b.t[m]).abs() > 1e-11 + 8.0 * f64::EPSILON * a.t[m].abs() {
                return Outcome::viol(format!("{}: the terminal event point does not mirror: {:e} vs {:e}", name, a.t[m], b.t[m]));
            }
            let nev: usize = a.t_events.iter().map(|v| v.len()).sum();
            Outcome::pass(format!("{}:reflect-events", name), nev >= 1, json!({"naccpt": a.naccpt, "events": nev, "terminal_stop": (a.status == Status::UserInterrupt) as u8}))
        }
        Rel::Scale { k } => {
            let sc = 2f64.powi(*k);
            let a = match run_one(&prob, &none, c, sp.x0, sp.xend, &y0, Tol::S(c.rtol), Tol::S(c.atol), fs_rk4) {
                Ok(s) => s,
                Err(e) => return Outcome::triv(format!("base-run:{}", e.chars().take(30).collect::<String>())),
            };
            let y0s: Vec<f64> = y0.iter().map(|v| v * sc).collect();
            let b = match run_one(&prob, &none, c, sp.x0, sp.xend, &y0s, Tol::S(c.rtol), Tol::S(c.atol * sc), fs_rk4) {
                Ok(s) => s,
                Err(e) => return Outcome::viol(format!("{}: the problem solves but scaled by 2^{} it gives {}", name, k, e)),
            };
            let exact = !c.method.implicit() || c.analytic_jac;
            if exact {
                if counters(&a) != counters(&b) {
                    return Outcome::viol(format!("{}: scaling state and atol by 2^{} changes the statistics: {:?} vs {:?}", name, k, counters(&a), counters(&b)));
                }
                let ys: Vec<Vec<f64>> = a.y.iter().map(|y| y.iter().map(|v| v * sc).collect()).collect();
                if !bits_eq(&a.t, &b.t) || !bits_eq2(&ys, &b.y) {
                    return Outcome::viol(format!("{}: scaling state and atol by 2^{} does not scale the trajectory exactly ({} vs {} samples)", name, k, a.t.len(), b.t.len()));
                }
            } else {
                // finite-difference Jacobian: the increment eps*max(|y|,1) is not scale invariant
                if a.status != Status::Success || b.status != Status::Success {
                    return Outcome::triv("fd-jacobian-nonsuccess");
                }
                let ya = a.y.last().unwrap();
                let yb: Vec<f64> = b.y.last().unwrap().iter().map(|v| v / sc).collect();
                let ymax = a.y.iter().fold(0.0f64, |m, y| m.max(inf_norm(y)));
                let bound = 2.0 * crate::props::c01::C_BOUND * prob.kappa() * (a.naccpt.max(b.naccpt) as f64) * (c.atol + c.rtol * ymax) + 1e-11 * (1.0 + ymax);
                if max_abs_diff(ya, &yb) > bound {
                    return Outcome::viol(format!("{}: (FD Jacobian) final states of the problem and its 2^{} scaling differ by {:e} > {:e}", name, k, max_abs_diff(ya, &yb), bound));
                }
            }
            Outcome::pass(format!("{}:scale{}", name, if exact { "" } else { ":fd" }), nontriv(&a), json!({"naccpt": a.naccpt, "nrejct": a.nrejct, "k": k}))
        }
        Rel::TolVec => {
            let a = match run_one(&prob, &none, c, sp.x0, sp.xend, &y0, Tol::S(c.rtol), Tol::S(c.atol), fs_rk4) {
                Ok(s) => s,
                Err(e) => return Outcome::triv(format!("base-run:{}", e.chars().take(30).collect::<String>())),
            };
            for (rv, av) in [(true, true), (true, false), (false, true)] {
                let rt = if rv { Tol::V(vec![c.rtol; n]) } else { Tol::S(c.rtol) };
                let at = if av { Tol::V(vec![c.atol; n]) } else { Tol::S(c.atol) };
                let b = match run_one(&prob, &none, c, sp.x0, sp.xend, &y0, rt, at, fs_rk4) {
                    Ok(s) => s,
                    Err(e) => return Outcome::viol(format!("{}: scalar tolerances solve but vector form (rtol vec={}, atol vec={}) gives {}", name, rv, av, e)),
                };
                if counters(&a) != counters(&b) || !bits_eq(&a.t, &b.t) || !bits_eq2(&a.y, &b.y) {
                    return Outcome::viol(format!("{}: writing the scalar tolerance as a constant vector (rtol vec={}, atol vec={}) changes the result: {:?} vs {:?}", name, rv, av, counters(&a), counters(&b)));
                }
            }
            Outcome::pass(format!("{}:tolvec", name), nontriv(&a) && n >= 2, json!({"naccpt": a.naccpt, "nrejct": a.nrejct, "n": n}))
        }
        Rel::CopiesStiff { lam_exp, m, fs_exp } => {
            let meth = if c.method == Meth::BDF { Meth::BDF } else { Meth::RADAU };
            let rl = Relax { lams: lam_exp.iter().map(|e| 10f64.powf(*e)).collect() };
            let nn = rl.dim();
            let h0 = 10f64.powf(*fs_exp);
            let (x0, xend) = (0.0, (4.0 * h0).max(2.0));
            let y1 = vec![1.0; nn];
            let mut cc = c.clone();
            cc.method = meth;
            cc.analytic_jac = true;
            // the end of the first accepted step, seen through the events hook (the reported t[1] is always
            // x0 + first_step: the output handler interpolates to it)
            let counter = vec![EvSpec { g: Ev::Const { v: 1.0 }, dir: 0, terminal: None }];
            let run = |rhs: &dyn Rhs, y0: &[f64]| -> Result<(Solution, f64), String> {
                let mut instr = Instr::new(rhs, &counter);
                instr.use_jac = true;
                instr.rec_ev = true;
                let o = RunOpts { method: meth, rtol: Tol::S(c.rtol), atol: Tol::S(c.atol), first_step: Some(h0), max_step: None, max_steps: None, t_eval: None, dense: false };
                match solve(&instr, x0, xend, y0, &o) {
                    RunResult::Ok(s) => {
                        let log = instr.take_log();
                        let idx = step_end_calls(&log.ev_t, 1.0);
                        if idx.len() < 2 {
                            return Err("no-step".into());
                        }
                        Ok((s, log.ev_t[idx[1]]))
                    }
                    other => Err(other.describe()),
                }
            };
            let _ = &cc;
            let (a, ea) = match run(&rl, &y1) {
                Ok(r) => r,
                Err(e) => return Outcome::triv(format!("base-run:{}", e.chars().take(30).collect::<String>())),
            };
            let cp = Copies(&rl, *m);
            let ym = vec![1.0; nn * m];
            let (_b, eb) = match run(&cp, &ym) {
                Ok(r) => r,
                Err(e) => return Outcome::viol(format!("{}: the stiff system solves but {} copies of it give {}", meth.name(), m, e)),
            };
            let acc = |e: f64| (e - (x0 + h0)).abs() <= 8.0 * ulp(h0);
            let first_accepted = |_s: &Solution| acc(ea);
            let b = _b;
            let fb = acc(eb);
            if acc(ea) != fb {
                return Outcome::viol(format!(
                    "{}: stiff relaxation (rates {:?}, rtol {:e}) with first_step {:e}: the first trial step is {} for the single system but {} for {} identical copies (first step ends {:e} vs {:e})",
                    meth.name(), rl.lams, c.rtol, h0, if acc(ea) { "accepted" } else { "rejected" }, if fb { "accepted" } else { "rejected" }, m, ea, eb
                ));
            }
            Outcome::pass(format!("{}:copies-stiff:{}", meth.name(), if first_accepted(&a) { "first-accepted" } else { "first-rejected" }), true, json!({"m": m, "naccpt": a.naccpt, "nrejct": a.nrejct}))
        }
        Rel::Copies { m } => {
            let fs = if c.method == Meth::RK4 { fs_rk4 } else { Some(c.first_step.clamp(1e-4, 0.2) * sp.len()) };
            let a = match run_one(&prob, &none, c, sp.x0, sp.xend, &y0, Tol::S(c.rtol), Tol::S(c.atol), fs) {
                Ok(s) => s,
                Err(e) => return Outcome::triv(format!("base-run:{}", e.chars().take(30).collect::<String>())),
            };
            let cp = Copies(&prob, *m);
            let mut y0m = vec![];
            for _ in 0..*m {
                y0m.extend_from_slice(&y0);
            }
            let b = match run_one(&cp, &none, c, sp.x0, sp.xend, &y0m, Tol::S(c.rtol), Tol::S(c.atol), fs) {
                Ok(s) => s,
                Err(e) => return Outcome::viol(format!("{}: the system solves but {} copies of it give {}", name, m, e)),
            };
            // copies stay identical among themselves
            for (i, y) in b.y.iter().enumerate() {
                for q in 1..*m {
                    if !bits_eq(&y[..n], &y[q * n..(q + 1) * n]) {
                        return Outcome::viol(format!("{}: copy {} differs from copy 0 at sample {} (t={:e})", name, q, i, b.t[i]));
                    }
                }
            }
            if a.status != Status::Success {
                return Outcome::triv(format!("base-status:{}", status_name(a.status)));
            }
            // "unchanged up to rounding in the error norm": a rounding-level change of the state changes the
            // error estimate (a difference of O(1) quantities of size tol) by eps/tol relative, the next step
            // by an eighth to a third of that, and an accept/reject decision when the estimate is that close
            // to 1.  The step-by-step comparison is therefore made for rtol >= 1e-6 only (flip probability
            // below 1e-8 per case); tighter tolerances get the tolerance-level comparison of the implicit methods.
            let strict = !c.method.implicit() && (c.rtol >= 1e-6 || c.method == Meth::RK4);
            if strict {
                let shift = sp.len() * (1e-6 + 50.0 * f64::EPSILON / c.rtol.max(1e-12));
                if b.status != a.status || a.naccpt != b.naccpt || a.nrejct != b.nrejct || a.t.len() != b.t.len() {
                    return Outcome::viol(format!("{}: {} independent copies change the step sequence: accepted/rejected {}/{} vs {}/{}", name, m, a.naccpt, a.nrejct, b.naccpt, b.nrejct));
                }
                for (x, y) in a.t.iter().zip(&b.t) {
                    if (x - y).abs() > shift {
                        return Outcome::viol(format!("{}: {} copies move a step end from {:e} to {:e}", name, m, x, y));
                    }
                }
                for (ya, yb) in a.y.iter().zip(&b.y) {
                    let tol = 1e-6 * (1.0 + inf_norm(ya));
                    if max_abs_diff(ya, &yb[..n]) > tol {
                        return Outcome::viol(format!("{}: {} copies change a copy's solution by {:e}", name, m, max_abs_diff(ya, &yb[..n])));
                    }
                }
            } else {
                if b.status != Status::Success {
                    return Outcome::viol(format!("{}: single system succeeds, {} copies end with {}", name, m, status_name(b.status)));
                }
                let lim = (a.naccpt as f64) * 0.25 + 5.0;
                if ((a.naccpt as f64) - (b.naccpt as f64)).abs() > lim {
                    return Outcome::viol(format!("{}: {} copies change the number of accepted steps from {} to {}", name, m, a.naccpt, b.naccpt));
                }
                let ymax = a.y.iter().fold(0.0f64, |mm, y| mm.max(inf_norm(y)));
                let bound = 2.0 * crate::props::c01::C_BOUND * prob.kappa() * (a.naccpt.max(b.naccpt) as f64) * (c.atol + c.rtol * ymax) + 1e-11 * (1.0 + ymax);
                let d = max_abs_diff(a.y.last().unwrap(), &b.y.last().unwrap()[..n]);
                if d > bound {
                    return Outcome::viol(format!("{}: {} copies change the final state by {:e} > {:e}", name, m, d, bound));
                }
            }
            Outcome::pass(format!("{}:copies", name), a.naccpt >= 5, json!({"naccpt": a.naccpt, "nrejct": a.nrejct, "m": m}))
        }
    }
}

pub fn strategy() -> BoxedStrategy<Case> {
    let common = || (span_mid(), any_method(), fr(3.0, 9.0), fr(-3.0, 0.0), any::<bool>(), log10(-3.0, -0.5));
    let mk = |(prob, (span, method, re, ar, analytic_jac, first_step), rel): (ProbSpec, (Span, Meth, f64, f64, bool, f64), Rel)| {
        let rtol = 10f64.powf(-re);
        Case { prob, span, method, rtol, atol: rtol * 10f64.powf(ar), analytic_jac, first_step, rel }
    };
    let ev = proptest::option::weighted(0.5, (proptest::collection::vec(fr(-1.0, 1.0), 6..=6), fr(-1.0, 1.0), fr(-1.0, 1.0)));
    prop_oneof![
        3 => (prob_spec(6, 0.5, 8.0), common(), ev.prop_map(|ev| Rel::Reflect { ev })).prop_map(mk),
        // runs that FAIL: a pole of the solution inside the interval (u' = rho u^2 with rho u0 theta > 1, or tan), so that the
        // outcome is decided by the solvers' step-size-underflow / non-finite exits; the mirror image must fail identically
        1 => ((fr(0.3, 2.0), fr(1.3, 4.0), fr(0.5, 6.0), any::<bool>(), proptest::option::weighted(0.5, (fr(-1.5, 0.1), fr(0.2, 2.0)))), common()).prop_map(|((u0, q, theta, tan, extra), cm)| {
            let pole = if tan { Block::Tan { rho: q * (std::f64::consts::FRAC_PI_2 - u0.atan()) / theta, u0 } } else { Block::Recip { rho: q / (u0 * theta), sg: 1.0, u0 } };
            let mut blocks = vec![pole];
            if let Some((lam, v)) = extra {
                blocks.push(Block::Real { lam, u0: v });
            }
            (ProbSpec { blocks, warp: Warp { theta, k: 0, beta: 0.0 }, mix: None, mag2: 0 }, cm, Rel::Reflect { ev: None })
        }).prop_map(mk),
        2 => (prob_spec(4, 0.5, 8.0).prop_flat_map(|p| { let n: usize = p.blocks.iter().map(|b| b.dim()).sum(); (Just(p), crate::evgen::recipes(n, 4, 0.4)) }), common()).prop_map(|((p, r), cm)| (p, cm, Rel::ReflectEvents { recipes: r })).prop_map(mk),
        3 => (linear_spec(6, false, 0.5, 8.0), common(), prop_oneof![4 => (-60i32..=60).boxed(), 1 => (-600i32..=600).boxed()].prop_map(|k| Rel::Scale { k })).prop_map(mk),
        2 => (prob_spec(6, 0.5, 8.0), common(), Just(Rel::TolVec)).prop_map(mk),
        2 => (prob_spec(3, 0.5, 6.0), common(), (2usize..=16).prop_map(|m| Rel::Copies { m })).prop_map(mk),
        1 => (prob_spec(1, 0.5, 6.0), common(), (proptest::collection::vec(fr(1.5, 6.0), 1..=3), prop_oneof![Just(2usize), Just(3), Just(16)], fr(-3.0, 0.0)).prop_map(|(lam_exp, m, fs_exp)| Rel::CopiesStiff { lam_exp, m, fs_exp })).prop_map(mk),
    ]
    .boxed()
}

pub fn run(ctx: &Ctx, known: &[Known]) -> Report {
    let cases = match ctx.tier {
        Tier::Quick => 40_000,
        Tier::Thorough => 1_000_000,
    };
    let stats = run_generated(ctx, "C13", "gen", &strategy, &check, cases, known);
    Report {
        id: "C13".into(),
        rule: "pairs of runs related by an exact symmetry: R1 time reflection z'=-f(-s,z) from -x0 to -xend (with a mirrored affine event half of the time; one case in fourteen has a pole of the solution inside the interval, so that the run and its mirror image must fail in the same way), R2 state and atol scaled by 2^k, k in [-60,60], linear homogeneous systems (time-dependent coefficients allowed), R3 scalar tolerance vs constant vector (rtol, atol or both), R4 m = 2..16 independent copies with first_step given; closed-form problems n<=6, six methods, tolerances 1e-3..1e-9, analytic or finite-difference Jacobian, both directions. Oracle: bit-identical trajectories and statistics for R1, R3 and for R2 with explicit methods or a user Jacobian (tolerance-level agreement for R2 with the FD Jacobian); event times mirror to 1e-11; copies bit-identical among themselves, same accepted/rejected counts and step ends to 1e-6|T| for explicit methods, tolerance-level agreement and +-25%+5 steps for Radau/BDF. Non-trivial = at least 5 accepted steps and (a rejection or at least 10 steps). Distinct = distinct canonical JSON.".into(),
        assumptions: vec![
            "R4 is only claimed with first_step given: the automatic initial step uses an un-normalised norm (not copy invariant by design)".into(),
            "Radau/BDF under R4 only to tolerance: rounding-level changes of the error norm steer discrete decisions (LU reuse, step halving)".into(),
        ],
        min_nontrivial_frac: 0.5,
        stats,
        exhaustive: false,
    }
}
