#!/usr/bin/env bash
# tools/start_th.sh [seed] -- thorough-tier dry run of every check on a private copy of /repo and /verif (under /tmp/th);
# results in /tmp/th/summary.txt and /tmp/th/<id>.out.  Stop and remove with tools/stop_th.sh.
seed="${1:-0}"
/verif/tools/private_copy.sh /tmp/th >/dev/null
cat > /tmp/th/run.sh <<'EOS'
#!/usr/bin/env bash
cd /tmp/th/verif
for id in C13 C14 C04 C05 C03 C02 C18 C11 C10 C19 C06 C07 C08 C09 C12 C01 C15 C20 C16 C17; do
  s=$(date +%s)
  VERIF_REPO=/tmp/th/repo VERIF_SEED=${TH_SEED:-0} ./check $id --tier thorough > /tmp/th/$id.out 2>&1; rc=$?
  echo "$id rc=$rc wall=$(( $(date +%s) - s ))s $(grep -c VIOLATION /tmp/th/$id.out) violations" >> /tmp/th/summary.txt
done
echo ALLDONE >> /tmp/th/summary.txt
EOS
chmod +x /tmp/th/run.sh
( TH_SEED="$seed" nohup nice /tmp/th/run.sh > /tmp/th/nohup.out 2>&1 & )
echo "thorough dry run started (seed $seed)"
