//! Byte-level decoders for the libFuzzer targets: the fuzz input is read as a stream of structured
//! choices (no rejection, zeros when exhausted), so coverage-guided mutations of the bytes are local,
//! structural mutations of the decoded case.  The decoded cases go through the same oracles as the
//! proptest-generated ones.

use crate::evgen::*;
use crate::gen::*;
use crate::instr::{Ev, EvSpec, Fault};
use crate::problems::*;
use crate::props::{c03, c04, c05, c09, c16, c17};
use crate::run::Tol;

pub struct R<'a> {
    d: &'a [u8],
    p: usize,
}

impl<'a> R<'a> {
    pub fn new(d: &'a [u8]) -> Self {
        R { d, p: 0 }
    }
    pub fn u8(&mut self) -> u8 {
        let v = self.d.get(self.p).copied().unwrap_or(0);
        self.p += 1;
        v
    }
    pub fn u16(&mut self) -> u16 {
        (self.u8() as u16) | ((self.u8() as u16) << 8)
    }
    pub fn bool(&mut self) -> bool {
        self.u8() & 1 == 1
    }
    /// index below n (n >= 1)
    pub fn idx(&mut self, n: usize) -> usize {
        (self.u8() as usize) % n.max(1)
    }
    /// float in [lo, hi] with 16-bit resolution
    pub fn f(&mut self, lo: f64, hi: f64) -> f64 {
        lo + (hi - lo) * (self.u16() as f64) / 65535.0
    }
    pub fn log10(&mut self, lo: f64, hi: f64) -> f64 {
        10f64.powf(self.f(lo, hi))
    }
    pub fn opt<T>(&mut self, p_num: u8, f: impl FnOnce(&mut Self) -> T) -> Option<T> {
        if self.u8() % 8 < p_num { Some(f(self)) } else { None }
    }
}

pub fn block(r: &mut R, theta: f64) -> Block {
    let tm = 1.2 * theta;
    match r.idx(8) {
        0 | 1 => Block::Real { lam: r.f(-1.5, 0.15), u0: r.f(0.2, 2.0) * if r.bool() { 1.0 } else { -1.0 } },
        2 | 3 => Block::Pair { a: r.f(-1.0, 0.1), b: r.f(0.0, 4.0), u0: [r.f(-2.0, 2.0), r.f(0.3, 2.0)] },
        4 => {
            let k = r.f(0.5, 2.0);
            Block::Logi { r: r.f(0.2, 2.0), k, u0: r.f(0.05, 2.0) * k }
        }
        5 => {
            let u0 = r.f(-2.0, 2.0);
            let dist = std::f64::consts::FRAC_PI_2 - u0.atan();
            Block::Tan { rho: 0.6 * dist * r.f(0.1, 1.0) / tm, u0 }
        }
        6 => {
            let u0 = r.f(0.2, 2.0);
            Block::Recip { rho: 0.6 * r.f(0.1, 1.0) / (u0 * tm), sg: if r.bool() { 1.0 } else { -1.0 }, u0 }
        }
        _ => Block::Const { c: r.f(-2.0, 2.0), u0: r.f(-2.0, 2.0) },
    }
}

pub fn prob_spec(r: &mut R, nmax: usize) -> ProbSpec {
    let warp = Warp { theta: r.f(0.3, 6.0), k: (r.u8() % 4), beta: r.f(-0.75, 0.75) };
    let nb = 1 + r.idx(nmax);
    let mut blocks = vec![];
    let mut d = 0;
    for _ in 0..nb {
        let b = block(r, warp.theta);
        if d + b.dim() > nmax {
            break;
        }
        d += b.dim();
        blocks.push(b);
    }
    if blocks.is_empty() {
        blocks.push(Block::Real { lam: -0.5, u0: 1.0 });
    }
    let mix = if r.u8() % 3 == 0 {
        None
    } else {
        let nr = r.idx(5);
        Some(Mix { rot: (0..nr).map(|_| (r.idx(8), r.idx(8), r.f(-3.1, 3.1))).collect(), scale: (0..nmax).map(|_| r.f(0.5, 2.0)).collect() })
    };
    ProbSpec { blocks, warp, mix, mag2: 0 }
}

pub fn meth(r: &mut R) -> Meth {
    [Meth::RK4, Meth::RK23, Meth::DOPRI5, Meth::DOP853, Meth::RADAU, Meth::BDF][r.idx(6)]
}

pub fn span_wide(r: &mut R, elo: f64, ehi: f64) -> Span {
    let x0 = match r.idx(3) {
        0 => 0.0,
        1 => r.f(-1000.0, 1000.0),
        _ => r.f(-3.0, 3.0),
    };
    let e = r.f(elo, ehi);
    mk_span(x0, 10f64.powf(e), r.bool())
}

pub fn tols(r: &mut R, n: usize, lo: f64, hi: f64) -> (Tol, Tol) {
    let rt = 10f64.powf(-r.f(lo, hi));
    match r.idx(3) {
        0 => (Tol::S(rt), Tol::S(rt * r.log10(-3.0, 0.0))),
        1 => (Tol::S(rt), Tol::V((0..n).map(|_| rt * r.log10(-3.0, 0.0)).collect())),
        _ => (Tol::V((0..n).map(|_| rt * r.log10(-1.5, 0.0)).collect()), Tol::V((0..n).map(|_| rt * r.log10(-3.0, 0.0)).collect())),
    }
}

pub fn place(r: &mut R) -> Place {
    match r.idx(8) {
        0 | 1 => Place::Frac(r.f(0.0, 1.0)),
        2 | 3 | 4 => Place::Near { k: r.u16(), delta: r.u8() % 9 },
        5 | 6 => Place::Mid { k: r.u16(), f: r.f(0.02, 0.98) },
        7 => Place::Start,
        _ => Place::End,
    }
}

pub fn ev_simple(r: &mut R, n: usize) -> EvSpec {
    let g = match r.idx(3) {
        0 => Ev::Affine { a: (0..n).map(|_| r.f(-1.0, 1.0)).collect(), bt: 0.0, c: r.f(-1.5, 1.5) },
        1 => Ev::Bilinear { i: r.idx(n), j: r.idx(n), c: r.f(-1.0, 1.0) },
        _ => Ev::Time { c: r.f(0.02, 0.98) },
    };
    EvSpec { g, dir: (r.u8() % 3) as i8 - 1, terminal: None }
}

pub fn case_c03(d: &[u8]) -> c03::Case {
    let r = &mut R::new(d);
    let prob = prob_spec(r, 4);
    let n: usize = prob.blocks.iter().map(|b| b.dim()).sum();
    let span = span_wide(r, -11.4, 6.0);
    let method = meth(r);
    let (rtol, atol) = tols(r, n, 3.0, 8.0);
    let first_step = r.opt(4, |r| match r.idx(3) {
        0 => [1.0, 0.1, 0.5, 2.0][r.idx(4)],
        _ => r.log10(-3.0, 1.0) * if r.bool() { -1.0 } else { 1.0 },
    });
    let first_step = match (method, first_step) {
        (Meth::RK4, Some(f)) if f.abs() < 2e-3 => Some(f.signum() * 2e-3),
        (_, f) => f,
    };
    let max_step = match r.idx(5) {
        0 | 1 => c03::MaxStep::None,
        2 => c03::MaxStep::Inf,
        3 => c03::MaxStep::Div(1 + (r.u8() % 12) as u32),
        _ => c03::MaxStep::Rel(r.log10(-2.0, 2.0)),
    };
    let t_eval = r.opt(3, |r| {
        let k = r.idx(13);
        let mut v: Vec<f64> = (0..k).map(|_| match r.idx(10) { 0 => 0.0, 1 => 1.0, _ => r.f(0.0, 1.0) }).collect();
        v.sort_by(|a, b| a.partial_cmp(b).unwrap());
        v
    });
    let dense = r.bool();
    let ne = r.idx(3);
    let events = (0..ne).map(|_| ev_simple(r, n)).collect();
    let max_steps = r.opt(2, |r| 1 + r.idx(59));
    // appended field (older corpus files decode to None)
    let fault = if r.u8() % 8 == 1 {
        Some(match r.u8() % 3 {
            0 => crate::instr::Fault::From { at: r.f(0.05, 0.98), v: r.u8() % 3 },
            1 => crate::instr::Fault::CompFrom { at: r.f(0.05, 0.98), i: r.idx(4), v: r.u8() % 3 },
            _ => crate::instr::Fault::NormAbove { theta: r.f(0.3, 3.0), v: r.u8() % 3 },
        })
    } else {
        None
    };
    c03::Case { prob, span, infinite: false, method, rtol, atol, first_step, max_step, t_eval, dense, events, max_steps, fault }
}

pub fn case_c04(d: &[u8]) -> c04::Case {
    let r = &mut R::new(d);
    let (patho, theta, fault) = match r.idx(8) {
        0 | 1 => {
            let p = 2 + r.u8() % 2;
            let u0 = r.f(0.3, 3.0);
            let tstar = 1.0 / ((p as f64 - 1.0) * u0.powi(p as i32 - 1));
            (c04::Patho::Pow { p, u0 }, r.f(0.5, 3.0) * tstar, None)
        }
        2 => {
            let u0 = r.f(-1.0, 2.0);
            (c04::Patho::Tan { u0 }, r.f(0.5, 3.0) * (std::f64::consts::FRAC_PI_2 - u0.atan()), None)
        }
        3 => {
            let k = 1 + r.idx(3);
            let lams: Vec<f64> = (0..k).map(|_| r.log10(0.0, 4.0)).collect();
            let lmax = lams.iter().cloned().fold(1.0, f64::max);
            (c04::Patho::Stiff { lams }, r.f(0.5, 3.0).min(3.0e4 / lmax), None)
        }
        4 => (c04::Patho::Square { lam: r.f(0.1, 5.0), amp: r.f(0.1, 3.0), period: r.f(0.2, 2.0) }, r.f(1.0, 8.0), None),
        _ => {
            let spec = prob_spec(r, 4);
            let th = spec.warp.theta;
            let v = r.u8() % 3;
            let f = match r.idx(4) {
                0 | 1 => Fault::From { at: r.f(0.0, 1.0), v },
                2 => Fault::CompFrom { at: r.f(0.05, 0.95), i: r.idx(8), v },
                _ => Fault::NormAbove { theta: r.f(0.5, 3.0), v },
            };
            (c04::Patho::Benign(spec), th, Some(f))
        }
    };
    let span = if r.u8() % 6 == 0 { mk_span(0.0, r.f(0.1, 20.0), r.bool()) } else { mk_span(r.f(-100.0, 100.0), r.f(0.1, 20.0), r.bool()) };
    let method = meth(r);
    let rtol = 10f64.powf(-r.f(3.0, 10.0));
    c04::Case {
        patho,
        span,
        theta,
        method,
        rtol,
        atol: rtol * r.log10(-3.0, 0.0),
        max_steps: match r.idx(6) { 0 | 1 | 2 => None, 3 | 4 => Some(1 + (r.u16() as usize) % 10_000), _ => Some(1 + r.idx(20)) },
        t_eval: r.opt(2, |r| { let k = r.idx(10); let mut v: Vec<f64> = (0..k).map(|_| r.f(0.0, 1.0)).collect(); v.sort_by(|a, b| a.partial_cmp(b).unwrap()); v }),
        dense: r.bool(),
        with_event: r.u8() % 3 == 0,
        fault,
        first_step: r.opt(2, |r| r.log10(-3.0, 0.0)),
        max_step: r.opt(2, |r| r.log10(-2.0, 0.5)),
        min_step: r.opt(1, |r| r.log10(-9.0, -2.0)),
    }
}

pub fn case_c05(d: &[u8]) -> c05::Case {
    let r = &mut R::new(d);
    let prob = prob_spec(r, 4);
    let n: usize = prob.blocks.iter().map(|b| b.dim()).sum();
    let span = mk_span(if r.bool() { 0.0 } else { r.f(-100.0, 100.0) }, r.f(0.1, 20.0), r.bool());
    let method = meth(r);
    let (rtol, atol) = tols(r, n, 3.0, 9.0);
    let analytic_jac = r.bool();
    let max_step = r.opt(2, |r| r.log10(-1.5, 0.0));
    let nrec = r.idx(4);
    let recipes: Vec<EvRecipe> = (0..nrec)
        .map(|_| {
            let kind = match r.idx(3) {
                0 => EvKind::Time,
                1 => EvKind::Affine((0..n).map(|_| r.f(-1.0, 1.0)).collect()),
                _ => EvKind::Bilinear(r.idx(n), r.idx(n)),
            };
            let terminal = if r.bool() { Some(1) } else { None };
            EvRecipe { kind, at: place(r), dir: if terminal.is_some() { 0 } else { (r.u8() % 3) as i8 - 1 }, terminal, scale: 0 }
        })
        .collect();
    let nte = 1 + r.idx(24);
    let t_eval = (0..nte).map(|_| place(r)).collect();
    let budget = r.opt(1, |r| r.f(0.1, 0.9));
    // appended (older corpus files decode to scale 0): exact power-of-two factors of the event functions
    let mut recipes = recipes;
    for rc in recipes.iter_mut() {
        rc.scale = match r.u8() % 8 {
            0 => (r.u8() as i32) - 128,
            1 => ((r.u16() % 1900) as i32) - 1000,
            _ => 0,
        };
    }
    c05::Case { base: c09::Case { prob, span, method, rtol, atol, analytic_jac, max_step, recipes, first_step: None }, t_eval, budget, empty_state: false }
}

/// C09: the event part of a C05 case (no terminal flags); one span in eight on a picosecond time axis
pub fn case_c09(d: &[u8]) -> c09::Case {
    let mut c = case_c05(d).base;
    for rc in c.recipes.iter_mut() {
        rc.terminal = None;
    }
    if c.recipes.is_empty() {
        c.recipes.push(EvRecipe { kind: EvKind::Time, at: Place::Frac(0.37), dir: 0, terminal: None, scale: 0 });
    }
    if let Some(b) = d.last() {
        if b % 8 == 3 {
            let back = c.span.xend < c.span.x0;
            c.span = mk_span(0.0, 10f64.powf(-11.3 + 3.3 * (*b as f64) / 255.0), back);
        }
    }
    c
}

pub fn case_c16(d: &[u8]) -> c16::Case {
    let r = &mut R::new(d);
    let n = 1 + r.idx(12);
    let complex = r.bool();
    let kind = ["iid", "sparse", "graded", "int", "singular"][r.idx(5)];
    let nn = n * n;
    let mut ar: Vec<f64> = (0..nn).map(|_| r.f(-1.0, 1.0)).collect();
    let mut ai: Vec<f64> = (0..nn).map(|_| if complex { r.f(-1.0, 1.0) } else { 0.0 }).collect();
    let mut struct_singular = false;
    match kind {
        "sparse" => {
            for k in 0..nn {
                if r.u8() % 10 < 6 {
                    ar[k] = 0.0;
                    ai[k] = 0.0;
                }
            }
        }
        "graded" => {
            let ex: Vec<i32> = (0..2 * n).map(|_| (r.u8() % 17) as i32 - 8).collect();
            for i in 0..n {
                for j in 0..n {
                    let s = 10f64.powi(ex[i]) * 10f64.powi(ex[n + j]);
                    ar[i * n + j] *= s;
                    ai[i * n + j] *= s;
                }
            }
        }
        "int" => {
            for k in 0..nn {
                ar[k] = (ar[k] * 4.49).round();
                ai[k] = (ai[k] * 4.49).round();
            }
        }
        "singular" => {
            struct_singular = true;
            let p = r.idx(n);
            if r.bool() {
                for j in 0..n {
                    ar[p * n + j] = 0.0;
                    ai[p * n + j] = 0.0;
                }
            } else {
                for i in 0..n {
                    ar[i * n + p] = 0.0;
                    ai[i * n + p] = 0.0;
                }
            }
        }
        _ => {}
    }
    let mut br: Vec<f64> = (0..n).map(|_| r.f(-1.0, 1.0)).collect();
    let mut bi: Vec<f64> = (0..n).map(|_| if complex { r.f(-1.0, 1.0) } else { 0.0 }).collect();
    // appended fields (older corpus files decode to kind 0 = dense): right-hand sides with exact zeros, entries with a zero part
    let rhs_kind = r.u8() % 8;
    let bp = r.idx(n);
    let bmask: Vec<u8> = (0..n).map(|_| r.u8() % 10).collect();
    c16::shape_rhs(rhs_kind, &bmask, bp, complex, &mut br, &mut bi);
    if complex && r.u8() % 4 == 1 {
        for k in 0..nn {
            match r.u8() % 10 {
                0..=3 => ai[k] = 0.0,
                8 | 9 => ar[k] = 0.0,
                _ => {}
            }
        }
    }
    c16::Case { n, kind: kind.to_string(), complex, ar, ai, br, bi, mis: c16::Mis::None, struct_singular }
}

pub fn case_c17(d: &[u8]) -> c17::Case {
    let r = &mut R::new(d);
    let n = 1 + r.idx(8);
    let mut spec = |r: &mut R| c17::MatSpec { ctor: c17::CTORS[r.idx(c17::CTORS.len())], ml: r.idx(n + 1), mu: r.idx(n + 1), vals: (0..n * n).map(|_| (r.u8() % 81) as i16 - 40).collect() };
    let a = spec(r);
    let b = spec(r);
    let nops = r.idx(13);
    let scal = [0.0, 1.0, -1.0, 0.5, -2.0, 0.1, -0.3, 1.0 / 3.0, 1e-17, -3e-20, 1e-300, 1099511627776.0];
    let ops = (0..nops)
        .map(|_| match r.idx(12) {
            0 => c17::Op::Add,
            1 => c17::Op::Sub,
            2 => c17::Op::AddAssign,
            3 => c17::Op::SubAssign,
            4 => c17::Op::SubAssignRef,
            5 => c17::Op::CompAdd(scal[r.idx(12)]),
            6 => c17::Op::CompSub(scal[r.idx(12)]),
            7 => c17::Op::CompMul(scal[r.idx(12)]),
            8 => c17::Op::CompMulMut(scal[r.idx(12)]),
            9 => c17::Op::Swap,
            10 => c17::Op::Write(r.idx(n), r.idx(n), (r.u8() % 81) as i16 - 40),
            _ => c17::Op::IsIdentity,
        })
        .collect();
    c17::Case { n, a, b, ops }
}
