#![no_main]
use libfuzzer_sys::fuzz_target;

// The fuzz bytes are decoded into a C09 case (the event part of the C05 decoder) (byte decoders in harness/src/bytes.rs); the oracle is
// the property's own check.  On a violation the shrunk-by-libFuzzer input is saved by libFuzzer and the
// decoded case is written as a JSON replay for `./check C09 --replay`.
fuzz_target!(|data: &[u8]| {
    // libfuzzer-sys installs a hook that aborts on any panic; the oracles catch expected panics
    // (out-of-band writes, evaluation budgets, crate panics reported as verdicts) themselves
    static QUIET: std::sync::Once = std::sync::Once::new();
    QUIET.call_once(|| std::panic::set_hook(Box::new(|_| {})));
    if let Some((case, msg)) = vf::fuzz_one("C09", data) {
        let dir = std::env::var("VERIF_DIR").unwrap_or_else(|_| "/verif".into());
        let h = vf::util::fnv64(case.as_bytes());
        let path = format!("{}/replays/C09-fuzz-{:016x}.json", dir, h);
        let _ = std::fs::create_dir_all(format!("{}/replays", dir));
        let _ = std::fs::write(&path, format!("{{\"property\":\"C09\",\"message\":{},\"case\":{}}}", serde_json_str(&msg), case));
        eprintln!("FUZZ-VIOLATION property=C09 replay={} :: {}", path, msg);
        panic!("property C09 violated");
    }
});

fn serde_json_str(s: &str) -> String {
    let mut o = String::from("\"");
    for c in s.chars() {
        match c {
            '"' => o.push_str("\\\""),
            '\\' => o.push_str("\\\\"),
            '\n' => o.push_str("\\n"),
            c if (c as u32) < 0x20 => {}
            c => o.push(c),
        }
    }
    o.push('"');
    o
}
