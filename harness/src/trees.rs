//! Rooted trees, elementary weights and densities for Runge-Kutta order conditions.

#[derive(Clone, Debug, PartialEq, Eq, PartialOrd, Ord)]
pub struct Tree {
    pub children: Vec<Tree>,
}

impl Tree {
    pub fn leaf() -> Tree {
        Tree { children: vec![] }
    }
    pub fn order(&self) -> usize {
        1 + self.children.iter().map(|c| c.order()).sum::<usize>()
    }
    /// density gamma
    pub fn gamma(&self) -> f64 {
        (self.order() as f64) * self.children.iter().map(|c| c.gamma()).product::<f64>()
    }
    pub fn show(&self) -> String {
        if self.children.is_empty() {
            "o".into()
        } else {
            format!("[{}]", self.children.iter().map(|c| c.show()).collect::<Vec<_>>().join(""))
        }
    }
}

/// all rooted trees with exactly `n` vertices, given all trees of smaller order
fn trees_of_order(n: usize, by_order: &[Vec<Tree>]) -> Vec<Tree> {
    if n == 1 {
        return vec![Tree::leaf()];
    }
    // multisets of trees with total order n-1: enumerate non-increasing sequences over a global index
    let mut all: Vec<Tree> = vec![];
    for o in 1..n {
        all.extend(by_order[o].iter().cloned());
    }
    let mut out = vec![];
    fn rec(all: &[Tree], start: usize, remaining: usize, cur: &mut Vec<Tree>, out: &mut Vec<Tree>) {
        if remaining == 0 {
            let mut ch = cur.clone();
            ch.sort();
            out.push(Tree { children: ch });
            return;
        }
        for i in start..all.len() {
            let o = all[i].order();
            if o <= remaining {
                cur.push(all[i].clone());
                rec(all, i, remaining - o, cur, out);
                cur.pop();
            }
        }
    }
    rec(&all, 0, n - 1, &mut vec![], &mut out);
    out.sort();
    out.dedup();
    out
}

/// by_order[k] = all rooted trees with k vertices (k = 1..=max)
pub fn all_trees(max: usize) -> Vec<Vec<Tree>> {
    let mut by_order: Vec<Vec<Tree>> = vec![vec![]];
    for n in 1..=max {
        let t = trees_of_order(n, &by_order);
        by_order.push(t);
    }
    by_order
}

/// stage vector Phi_i(tree) for a tableau A (s x s, row-major)
pub fn phi(tree: &Tree, a: &[f64], s: usize) -> Vec<f64> {
    let mut v = vec![1.0; s];
    for ch in &tree.children {
        let pc = phi(ch, a, s);
        for i in 0..s {
            let mut acc = 0.0;
            for j in 0..s {
                acc += a[i * s + j] * pc[j];
            }
            v[i] *= acc;
        }
    }
    v
}

/// residual sum_i b_i Phi_i(tree) - 1/gamma(tree)
pub fn residual(tree: &Tree, a: &[f64], b: &[f64], s: usize) -> f64 {
    let p = phi(tree, a, s);
    let lhs: f64 = b.iter().zip(&p).map(|(x, y)| x * y).sum();
    lhs - 1.0 / tree.gamma()
}
