#![allow(dead_code)]
use vf::*;

use engine::*;
use std::time::Instant;

fn load_known(verif: &str) -> Vec<Known> {
    let path = format!("{}/known_findings.json", verif);
    let txt = match std::fs::read_to_string(&path) {
        Ok(t) => t,
        Err(_) => return vec![],
    };
    let v: serde_json::Value = serde_json::from_str(&txt).expect("known_findings.json is not valid JSON");
    let mut out = vec![];
    if let Some(arr) = v["findings"].as_array() {
        for f in arr {
            if f["state"].as_str() == Some("known") {
                out.push(Known {
                    property: f["property"].as_str().unwrap_or("").to_string(),
                    key: f["key"].as_str().unwrap_or("").to_string(),
                    what: f["what"].as_str().unwrap_or("").to_string(),
                });
            }
        }
    }
    out
}

macro_rules! dispatch {
    ($id:expr, $ctx:expr, $known:expr, $replay:expr, $( $name:literal => $m:ident ),* ) => {
        match $id {
            $( $name => {
                if let Some(p) = $replay {
                    engine::replay::<props::$m::Case>($name, p, &props::$m::check, $known)
                } else {
                    let t0 = Instant::now();
                    let (rst, rviol) = engine::run_regress::<props::$m::Case>($ctx, $name, &props::$m::check, $known);
                    if let Some((path, _key, msg)) = rviol {
                        // a repaired defect (or a new failure of a saved case) is back
                        println!("  oracle: {}", msg);
                        println!("VIOLATION property={} replay={}", $name, path);
                        let mut rep = props::$m::run(&Ctx { scale: 0.02, ..$ctx.clone() }, $known);
                        rep.stats.violation = None;
                        engine::merge(&mut rep.stats, rst);
                        let _ = finish($ctx, rep, $known, t0.elapsed().as_secs_f64());
                        1
                    } else {
                        let mut rep = props::$m::run($ctx, $known);
                        engine::merge(&mut rep.stats, rst);
                        finish($ctx, rep, $known, t0.elapsed().as_secs_f64())
                    }
                }
            } )*
            other => { eprintln!("unknown property {}", other); 2 }
        }
    };
}

fn main() {
    // crate panics are caught and reported through their payload; keep stderr quiet
    if std::env::var("VF_PANIC").is_err() {
        std::panic::set_hook(Box::new(|_| {}));
    }
    let args: Vec<String> = std::env::args().collect();
    if args.len() < 2 {
        eprintln!("usage: vf <Cxx> [--tier quick|thorough] [--replay file]");
        std::process::exit(2);
    }
    let id = args[1].clone();
    if id == "pycase" {
        std::process::exit(pycase::serve());
    }
    let mut tier = match std::env::var("VERIF_TIER").ok().as_deref() {
        Some("thorough") => Tier::Thorough,
        _ => Tier::Quick,
    };
    let mut replay: Option<String> = None;
    let mut i = 2;
    while i < args.len() {
        match args[i].as_str() {
            "--tier" => {
                i += 1;
                tier = if args.get(i).map(|s| s.as_str()) == Some("thorough") { Tier::Thorough } else { Tier::Quick };
            }
            "--replay" => {
                i += 1;
                replay = args.get(i).cloned();
            }
            _ => {}
        }
        i += 1;
    }
    let seed: u64 = std::env::var("VERIF_SEED").ok().and_then(|s| s.trim().parse::<i64>().ok()).map(|v| v as u64).unwrap_or(0);
    let verif_dir = std::env::var("VERIF_DIR").unwrap_or_else(|_| "/verif".to_string());
    let shards: usize = std::env::var("VERIF_SHARDS").ok().and_then(|s| s.parse().ok()).unwrap_or(16);
    let scale: f64 = std::env::var("VERIF_SCALE").ok().and_then(|s| s.parse().ok()).unwrap_or(1.0);
    let ctx = Ctx { tier, seed, verif_dir: verif_dir.clone(), shards, scale };
    let known = load_known(&verif_dir);
    let code = dispatch!(id.as_str(), &ctx, &known, replay.as_deref(),
        "C01" => c01,
        "C02" => c02,
        "C03" => c03,
        "C04" => c04,
        "C05" => c05,
        "C06" => c06,
        "C07" => c07,
        "C08" => c08,
        "C09" => c09,
        "C10" => c10,
        "C11" => c11,
        "C12" => c12,
        "C13" => c13,
        "C14" => c14,
        "C15" => c15,
        "C16" => c16,
        "C17" => c17,
        "C18" => c18,
        "C19" => c19
    );
    std::process::exit(code);
}
