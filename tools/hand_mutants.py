#!/usr/bin/env python3
"""Hand-written coefficient / logic mutants from the original design lists.  Works on a private copy of /repo
(git worktree) and of /verif under /tmp/hm, so /repo itself is never touched; removes the copy at the end.  Not registered in the manifest: a construction-time sensitivity aid.
Usage: tools/hand_mutants.py [name-substring]"""
import subprocess, sys
M = [
 ("dopri5-A53-digit", "src/methods/dopri5.rs", "const A53: Float = 64448.0 / 6561.0;", "const A53: Float = 64449.0 / 6561.0;", ["C02", "C01"]),
 ("dop853-A1211-digit", "src/methods/dop853.rs", "6.43392746015763530355970484046e-1;", "6.43392746115763530355970484046e-1;", ["C02"]),
 ("rk23-E3", "src/methods/rk23.rs", "const E3: Float = -1.0 / 9.0;", "const E3: Float = -1.1 / 9.0;", ["C02"]),
 ("rk4-C3", "src/methods/rk4.rs", "const C3: Float = 0.5;", "const C3: Float = 0.51;", ["C02", "C01"]),
 ("radau-TI12-digit", "src/methods/radau.rs", "const TI12: Float = 4.766_235_545_005_504_4E-1;", "const TI12: Float = 4.766_235_645_005_504_4E-1;", ["C02", "C14"]),
 ("radau-T20-digit", "src/methods/radau.rs", "const T20: Float = 9.660_481_826_150_93E-1;", "const T20: Float = 9.660_481_926_150_93E-1;", ["C02"]),
 ("dopri5-D3-dense", "src/methods/dopri5.rs", "const D3: Float = 87487479700.0 / 32700410799.0;", "const D3: Float = 87487479700.0 / 32700410799.0 * 1.001;", ["C07", "C06"]),
 ("dop853-D613-dense", "src/methods/dop853.rs", "const D613: Float = -0.27782057523535084065932004339e+01;", "const D613: Float = -0.27782157523535084065932004339e+01;", ["C07"]),
 ("rk23-D21-dense", "src/methods/rk23.rs", "const D21: Float = -4.0 / 3.0;", "const D21: Float = -1.3;", ["C07", "C06", "C19"]),
 ("radau-C2M1-interp", "src/methods/radau.rs", "            yi[i] = c0[i] + s * (c1[i] + (s - C2M1) * (c2[i] + (s - C1M1) * c3[i]));", "            yi[i] = c0[i] + s * (c1[i] + (s - C2M1 * 1.01) * (c2[i] + (s - C1M1) * c3[i]));", ["C07"]),
 ("brent-xtol-1e-3", "src/solve/solout.rs", "const XTOL: Float = 2e-12;", "const XTOL: Float = 1e-3;", ["C08", "C09"]),
 ("find-segment-tol-0", "src/solve/cont.rs", "        let mut best_dist = 1e-12;", "        let mut best_dist = -1.0;", ["C06", "C05"]),
 ("dop853-posneg-dropped", "src/methods/dop853.rs", "                    hnew = posneg * h_max.abs();", "                    hnew = h_max.abs();", ["C13", "C03", "C11"]),
 ("bdf-error-const-shift", "src/methods/bdf.rs", "            error_const[k] = KAPPA[k] * gamma[k] + 1.0 / (k as Float + 1.0);", "            error_const[k] = (KAPPA[k] * gamma[k] + 1.0 / (k as Float + 1.0)) * 0.001;", ["C01", "C14"]),
 ("hinit-ignores-hmax", "src/methods/mod.rs", "    let h_final = h.abs().min(100.0_f64 * h.abs()).min(h1).min(hmax.abs());", "    let h_final = h.abs().max(100.0_f64 * h.abs()).min(h1);", ["C11", "C03"]),
 ("terminal-gt-limit", "src/solve/solout.rs", "                        if self.event_hits[i] >= limit {", "                        if self.event_hits[i] > limit {", ["C10", "C03"]),
 ("crossed-positive-wrong", "src/solve/solout.rs", "                        Direction::Positive => left < 0.0 && right >= 0.0,", "                        Direction::Positive => left > 0.0 && right <= 0.0,", ["C08", "C09"]),
 ("dopri5-err-norm-x0.01", "src/methods/dopri5.rs", "            err = (err / n as f64).sqrt();", "            err = (err / n as f64).sqrt() * 0.001;", ["C01"]),
 ("rk23-tol-index-0", "src/methods/rk23.rs", "                let tol = atol[i] + rtol[i] * yt[i].abs().max(y[i].abs());", "                let tol = atol[0] + rtol[0] * yt[i].abs().max(y[i].abs());", ["C01"]),
 ("banded-add-mu", "src/matrix/add.rs", "                            let row_out = (k + mu_out as isize) as usize;\n                            out.data[row_out * n + j] += b[r * n + j];", "                            let row_out = (k + mu as isize) as usize;\n                            out.data[row_out * n + j] += b[r * n + j];", ["C17"]),
 ("lu-pivot-from-kp1", "src/matrix/lu.rs", "        let mut m = k;\n        let mut max_val = a[(k, k)].abs();\n        for i in kp1..n {\n            let val = a[(i, k)].abs();", "        let mut m = k;\n        let mut max_val = a[(k, k)].abs() * 2.0;\n        for i in kp1..n {\n            let val = a[(i, k)].abs();", ["C16"]),
 ("dop853-extra-nfev", "src/methods/dop853.rs", "                    f.ode(x + C16 * h, &y1, &mut k3);\n                    evals.ode += 3;", "                    f.ode(x + C16 * h, &y1, &mut k3);\n                    evals.ode += 4;", ["C18"]),
 ("rk23-skip-initial-callback", "src/methods/rk23.rs", "        // Initial SolOut call (no interpolator yet; xold == x)\n        if let Some(sol) = solout.as_mut() {\n            match sol.solout(xold, &mut x, &mut y, None) {", "        // Initial SolOut call (no interpolator yet; xold == x)\n        if let Some(sol) = solout.as_mut().filter(|_| false) {\n            match sol.solout(xold, &mut x, &mut y, None) {", ["C19", "C03"]),
]
def sh(cmd):
    return subprocess.run(cmd, shell=True, capture_output=True, text=True)
args = [a for a in sys.argv[1:] if a != "--suite"]
suite = "--suite" in sys.argv
flt = args[0] if args else ""
ROOT = "/tmp/hm"
sh("git -C /repo worktree remove --force %s/repo; rm -rf %s; mkdir -p %s" % (ROOT, ROOT, ROOT))
sh("git -C /repo worktree add -q --detach %s/repo HEAD" % ROOT)
sh("rsync -a --exclude harness/fuzz/target --exclude py/build --exclude .git /verif/ %s/verif/" % ROOT)
sh("sed -i 's#path = \"/repo\"#path = \"%s/repo\"#' %s/verif/harness/Cargo.toml" % (ROOT, ROOT))
import atexit
atexit.register(lambda: sh("git -C /repo worktree remove --force %s/repo; rm -rf %s; git -C /repo worktree prune" % (ROOT, ROOT)))
for name, f, old, new, checks in M:
    if flt not in name: continue
    sh("git -C %s/repo reset -q --hard HEAD" % ROOT)
    p = ROOT + "/repo/" + f; s = open(p).read()
    if s.count(old) < 1:
        print("%-28s PATTERN NOT FOUND" % name); continue
    open(p, "w").write(s.replace(old, new, 1))
    res = []
    for c in checks:
        r = sh("cd %s/verif && ./check %s --tier quick" % (ROOT, c))
        why = [l for l in r.stdout.splitlines() if "oracle:" in l or "BUILD" in l or "INCONCL" in l]
        res.append("%s=%d%s" % (c, r.returncode, (" (" + why[0].strip()[:110] + ")") if why else ""))
    if suite:
        r = sh("cd " + ROOT + "/repo && cargo test --workspace --no-fail-fast --offline 2>&1 | grep -c '^test result: FAILED\\|^error'")
        res.append("suite=" + ("passes" if r.stdout.strip() == "0" else "FAILS"))
    print("%-28s %s" % (name, " | ".join(res)), flush=True)
