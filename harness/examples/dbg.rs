use ivp::prelude::*;
struct P;
impl IVP for P {
    fn ode(&self, x: f64, y: &[f64], dy: &mut [f64]) {
        let (a,c)=(1.5675428,0.4471676616735688);
        let span=41.8342-37.115330400000005; let x0=-41.8342;
        let th=5.565533; let aa=th/span; let w=2.0*std::f64::consts::PI*2.0/span; let b=-0.4084395*aa/w;
        let d=x-x0; let dt=aa+b*w*(w*d).cos();
        let u=y[0]/0.778106;
        dy[0]=0.778106*(a*u-c*u*u*u)*dt;
    }
}
fn main(){
    for dense in [false,true] {
    let o=Options::builder().method(Method::RADAU).rtol(4.261985815634729e-08).atol(4.054385126516516e-08).dense_output(dense).build();
    let s=solve_ivp(&P,-41.8342,-37.115330400000005,&[2.2914841642104*0.778106],o).unwrap();
    println!("dense={} status={:?} n={} last t={:?} span={:?} nacc={} nrej={}",dense,s.status,s.t.len(),s.t.last(),s.sol_span(),s.naccpt,s.nrejct);
    let k=s.t.len(); println!("{:?}", &s.t[k-4..]);
    }
}
