#!/usr/bin/env python3
"""C20 -- the Python binding returns the Rust solution in SciPy layout.

Hypothesis generates problems that are expressible with identical floating-point operations on
both sides (only + - * / in a fixed order), solves each one through `ivp.solve_ivp` (the extension
module built from /repo) and through the Rust harness (`vf pycase`, persistent child process,
every f64 returned as its bit pattern), and compares bit for bit.
"""
import hashlib
import json
import os
import struct
import subprocess
import sys
import time

import numpy as np
import scipy.sparse as sp
from hypothesis import HealthCheck, given, seed, settings
from hypothesis import strategies as st

VERIF_DIR = os.environ.get("VERIF_DIR", "/verif")
SEED = int(os.environ.get("VERIF_SEED", "0") or 0)

import ivp  # noqa: E402  (PYTHONPATH points at the freshly built extension)

METHODS = ["RK45", "RK23", "DOP853", "Radau", "BDF", "RK4"]


# ---------------------------------------------------------------------------------------------
# Rust side
class Rust:
    def __init__(self):
        self.p = subprocess.Popen([os.path.join(VERIF_DIR, "harness/target/release/vf"), "pycase"],
                                  stdin=subprocess.PIPE, stdout=subprocess.PIPE, text=True, bufsize=1)

    def solve(self, case):
        self.p.stdin.write(json.dumps(case) + "\n")
        self.p.stdin.flush()
        line = self.p.stdout.readline()
        if not line:
            raise RuntimeError("vf pycase died")
        return json.loads(line)


RUST = None


def unhex(h):
    return struct.unpack(">d", bytes.fromhex(h))[0]


def bits(x):
    return struct.pack(">d", float(x)).hex()


# ---------------------------------------------------------------------------------------------
# the problem on the Python side: same operations, same order as harness/src/pycase.rs
class Problem:
    def __init__(self, c, use_args, ret):
        self.c = c
        self.use_args = use_args
        self.ret = ret
        self.calls = 0
        self.args_seen = True

    def rhs_vals(self, t, y, s):
        c = self.c
        n = c["n"]
        out = []
        for i in range(n):
            if c["kind"] == "lin":
                acc = 0.0
                for j in range(n):
                    acc = acc + c["mat"][i][j] * float(y[j])
                acc = acc + c["v1"][i] * t
                v = s * acc
            elif c["kind"] == "lv":
                acc = c["v1"][i]
                for j in range(n):
                    acc = acc + c["mat"][i][j] * float(y[j])
                v = s * (float(y[i]) * acc)
            else:
                yi = float(y[i])
                q = (c["v1"][i] + c["v2"][i] * yi) / (1.0 + yi * yi)
                v = s * (q + c["mat"][i][0] * t)
            out.append(v)
        return out

    def wrap(self, vals):
        if self.c["int_ret"]:
            return np.array([int(min(max(v, -4.0e18), 4.0e18)) for v in vals], dtype=np.int64)
        if self.ret == "list":
            return vals
        if self.ret == "tuple":
            return tuple(vals)
        return np.array(vals, dtype=np.float64)

    def fun(self, t, y, *args):
        self.calls += 1
        if self.use_args:
            if len(args) != 1:
                self.args_seen = False
            s = args[0] if args else 1.0
        else:
            if args:
                self.args_seen = False
            s = 1.0
        if not (isinstance(y, np.ndarray) and y.shape == (self.c["n"],)):
            raise AssertionError("y passed to fun has shape %r" % (getattr(y, "shape", None),))
        return self.wrap(self.rhs_vals(float(t), y, s))

    def event(self, k):
        e = self.c["events"][k]
        prob = self

        def g(t, y, *args):
            if prob.use_args and len(args) != 1:
                prob.args_seen = False
            s = args[0] if (prob.use_args and args) else 1.0
            acc = 0.0
            for j in range(prob.c["n"]):
                acc = acc + e["a"][j] * float(y[j])
            return (acc + e["bt"] * float(t)) - e["c"] * s

        g.terminal = bool(e["terminal"])
        g.direction = float(e["direction"])
        return g

    def jac_matrix(self, s):
        n = self.c["n"]
        return [[s * self.c["mat"][i][j] for j in range(n)] for i in range(n)]

    def jac_callable(self, sparse):
        prob = self

        def jac(t, y, *args):
            if prob.use_args and len(args) != 1:
                prob.args_seen = False
            s = args[0] if (prob.use_args and args) else 1.0
            m = np.array(prob.jac_matrix(s), dtype=np.float64)
            return sp.csc_matrix(m) if sparse else m

        return jac


def true_pattern(c):
    n = c["n"]
    pat = np.zeros((n, n), dtype=bool)
    for i in range(n):
        for j in range(n):
            if c["kind"] in ("lin", "lv"):
                if c["mat"][i][j] != 0.0:
                    pat[i, j] = True
            if i == j and c["kind"] in ("lv", "rat"):
                pat[i, j] = True
    return pat


# ---------------------------------------------------------------------------------------------
# strategies
def fl(lo, hi):
    return st.integers(0, 10**6).map(lambda k: lo + (hi - lo) * k / 1e6)


@st.composite
def cases(draw):
    n = draw(st.integers(1, 6))
    kind = draw(st.sampled_from(["lin", "lin", "lv", "rat"]))
    dens = draw(st.sampled_from([0.3, 0.6, 1.0]))
    # one case in five couples only neighbours (band of half-width 1 or 2) in up to 8 dimensions: with jac_sparsity the
    # grouped finite differences then perturb several columns at once, and columns join groups created earlier
    band = draw(st.integers(0, 4)) == 0
    bw = 0
    if band:
        n = draw(st.integers(4, 8))
        bw = draw(st.integers(1, 2))
    mat = []
    for i in range(n):
        row = []
        for j in range(n):
            keep = (i == j) or ((abs(i - j) <= bw) if band else (draw(fl(0, 1)) < dens))
            lo, hi = (-2.0, 0.5) if i == j else (-1.0, 1.0)
            if kind == "lv":
                lo, hi = (-1.0, -0.1) if i == j else (-0.3, 0.3)
            row.append(draw(fl(lo, hi)) if keep else 0.0)
        mat.append(row)
    # one linear case in four is an oscillator in its first two components: events then fire several times
    osc = kind == "lin" and n >= 2 and draw(st.integers(0, 3)) == 0
    if osc:
        w = draw(fl(2.0, 8.0))
        mat[0][0], mat[0][1], mat[1][0], mat[1][1] = draw(fl(-0.2, 0.0)), w, -w, draw(fl(-0.2, 0.0))
        for j in range(2, n):
            mat[0][j] = mat[1][j] = 0.0
    v1 = [draw(fl(-1.0, 1.0)) for _ in range(n)]
    v2 = [draw(fl(-1.0, 1.0)) for _ in range(n)]
    if osc:
        v1[0] = v1[1] = 0.0
    if kind == "lv":
        v1 = [draw(fl(0.1, 1.0)) for _ in range(n)]
    use_args = draw(st.booleans())
    s = draw(fl(0.5, 1.5)) if use_args else 1.0
    # (the implicit methods carry most of the binding's options - jac, jac_sparsity, min_step -: half of the cases)
    method = draw(st.sampled_from((["Radau", "BDF"] * 3 + list(METHODS)) if band else (list(METHODS) + ["Radau", "BDF"])))
    int_ret = method == "RK4" and kind == "lin" and draw(st.integers(0, 3)) == 0
    back = draw(st.booleans())
    t0 = draw(st.sampled_from([0.0, 0.0, 1.5, -3.25])) if not draw(st.booleans()) else draw(fl(-10, 10))
    length = draw(fl(0.2, 6.0))
    tf = t0 - length if back else t0 + length
    y0 = [draw(fl(0.2, 2.0)) * (1 if kind == "lv" else draw(st.sampled_from([1, -1]))) for _ in range(n)]
    if kind == "lin" and not osc and draw(st.integers(0, 2)) == 0:
        # components of different magnitudes above 1: finite-difference increments then differ from column to column
        y0 = [v * 10.0 ** draw(st.integers(0, 3)) for v in y0]
    if int_ret:
        y0 = [float(draw(st.integers(-40, 40))) for _ in range(n)]
    e = draw(fl(3.0, 9.0))
    rtol_scalar = draw(st.booleans())
    atol_scalar = draw(st.booleans())
    rt = 10.0 ** (-e)
    rtol = [rt] if rtol_scalar else [rt * 10.0 ** draw(fl(-1.0, 0.0)) for _ in range(n)]
    atol = [rt * 10.0 ** draw(fl(-3.0, 0.0))] if atol_scalar else [rt * 10.0 ** draw(fl(-3.0, 0.0)) for _ in range(n)]
    opt = lambda strat: draw(st.one_of(st.none(), strat))  # noqa: E731
    first_step = opt(fl(0.001, 0.2).map(lambda f: f * length))
    if method == "RK4":
        first_step = (1 if not back else -1) * length / draw(st.integers(20, 120)) if draw(st.booleans()) else None
    max_step = opt(fl(0.02, 1.5).map(lambda f: f * length))
    min_step = opt(st.just(0.0)) if method in ("Radau", "BDF") else None
    max_steps = opt(st.integers(5, 400))
    t_eval = None
    if draw(st.integers(0, 2)) == 0:
        fr = sorted(draw(st.lists(fl(0.0, 1.0), min_size=0, max_size=12)))
        if draw(st.booleans()):
            fr = [0.0] + fr + [1.0]
        t_eval = [tf if f >= 1.0 else (t0 if f <= 0.0 else t0 + f * (tf - t0)) for f in fr]
    dense_output = draw(st.booleans())
    nev = draw(st.sampled_from([0, 0, 1, 2, 3]))
    events = []
    for _ in range(nev):
        events.append({"a": [draw(fl(-1.0, 1.0)) for _ in range(n)], "bt": draw(fl(-0.5, 0.5)), "c": draw(fl(-1.0, 1.0)),
                       "terminal": draw(st.integers(0, 3)) == 0, "direction": draw(st.sampled_from([-1, 0, 1]))})
    if osc:
        # a non-terminal level crossing of the oscillating component: several occurrences, (k, n) state arrays with k >= 2
        first = {"a": [1.0] + [0.0] * (n - 1), "bt": 0.0, "c": draw(fl(-0.15, 0.15)), "terminal": False, "direction": draw(st.sampled_from([-1, 0, 1]))}
        events = [first] + events[1:]
    ev_form = draw(st.sampled_from(["list", "tuple", "single"]))
    jac_mode = "none"
    if kind == "lin" and method in ("Radau", "BDF"):
        jac_mode = draw(st.sampled_from(["none", "callable", "callable_sparse", "const", "const_sparse", "const_int"]))
    sparsity = None
    if jac_mode == "none" and method in ("Radau", "BDF") and (draw(st.booleans()) or (band and draw(st.booleans()))):
        extra = 0.0 if draw(st.booleans()) else draw(fl(0.0, 0.5))
        fmt = draw(st.sampled_from(["csc", "csr", "coo", "lil"]))
        extras = [[draw(fl(0, 1)) < extra for _ in range(n)] for _ in range(n)]
        sparsity = {"fmt": fmt, "extras": extras}
    ret = draw(st.sampled_from(["list", "tuple", "ndarray"]))
    nq = draw(st.integers(0, 6))
    qf = [draw(fl(0.0, 1.0)) for _ in range(nq)]
    case = {"kind": kind, "n": n, "mat": mat, "v1": v1, "v2": v2, "s": s, "int_ret": int_ret, "t0": t0, "tf": tf, "y0": y0,
            "method": method, "rtol": rtol, "rtol_scalar": rtol_scalar, "atol": atol, "atol_scalar": atol_scalar,
            "first_step": first_step, "max_step": max_step, "min_step": min_step, "max_steps": max_steps,
            "t_eval": t_eval, "dense_output": dense_output, "events": events,
            "user_jac": jac_mode != "none", "queries": qf}
    if jac_mode == "const_int":
        # integer-valued constant Jacobian: make the matrix integer so both sides agree
        case["mat"] = [[float(round(v)) for v in row] for row in mat]
        case["s"] = 1.0
        use_args = False
    meta = {"use_args": use_args, "ev_form": ev_form, "jac_mode": jac_mode, "sparsity": sparsity, "ret": ret}
    return case, meta


# ---------------------------------------------------------------------------------------------
class Violation(Exception):
    pass


STATS = {"evaluations": 0, "nontrivial": set(), "classes": {}, "samples": [], "trivial": {}}


def check_case(case, meta, record=True):
    global RUST
    if RUST is None:
        RUST = Rust()
    n = case["n"]
    prob = Problem(case, meta["use_args"], meta["ret"])
    kwargs = {}
    kwargs["rtol"] = case["rtol"][0] if case["rtol_scalar"] else list(case["rtol"])
    kwargs["atol"] = case["atol"][0] if case["atol_scalar"] else np.array(case["atol"])
    for k in ("first_step", "max_step", "min_step", "max_steps"):
        if case[k] is not None:
            kwargs[k] = case[k]
    if case["t_eval"] is not None:
        kwargs["t_eval"] = np.array(case["t_eval"]) if len(case["t_eval"]) % 2 == 0 else list(case["t_eval"])
    evs = [prob.event(k) for k in range(len(case["events"]))]
    events_arg = None
    if evs:
        if meta["ev_form"] == "single" and len(evs) == 1:
            events_arg = evs[0]
        elif meta["ev_form"] == "tuple":
            events_arg = tuple(evs)
        else:
            events_arg = evs
    jac_arg = None
    jm = meta["jac_mode"]
    if jm == "callable":
        jac_arg = prob.jac_callable(False)
    elif jm == "callable_sparse":
        jac_arg = prob.jac_callable(True)
    elif jm == "const":
        jac_arg = np.array(prob.jac_matrix(case["s"]), dtype=np.float64)
    elif jm == "const_sparse":
        jac_arg = sp.csr_matrix(np.array(prob.jac_matrix(case["s"]), dtype=np.float64))
    elif jm == "const_int":
        jac_arg = np.array(prob.jac_matrix(1.0)).astype(np.int64)
    spars_arg = None
    ngroups_lt_n = False
    if meta["sparsity"] is not None:
        pat = true_pattern(case) | np.array(meta["sparsity"]["extras"], dtype=bool)[:n, :n]
        m = sp.csc_matrix(pat.astype(np.float64))
        spars_arg = {"csc": m, "csr": m.tocsr(), "coo": m.tocoo(), "lil": m.tolil()}[meta["sparsity"]["fmt"]]
    args = (case["s"],) if meta["use_args"] else None

    def call(with_sparsity):
        prob.calls = 0
        return ivp.solve_ivp(prob.fun, (case["t0"], case["tf"]), list(case["y0"]) if n % 2 else np.array(case["y0"]),
                             method=case["method"], dense_output=case["dense_output"], events=events_arg, args=args,
                             jac=jac_arg, jac_sparsity=spars_arg if with_sparsity else None, **kwargs)

    want = RUST.solve(case)
    if "bad_case" in want:
        raise RuntimeError("harness rejected the case: " + want["bad_case"])
    try:
        res = call(True)
        calls_sparse = prob.calls
    except BaseException as ex:  # noqa: BLE001  (pyo3 panics surface as BaseException subclasses)
        if "err" in want or "panic" in want:
            return "both-fail"
        raise Violation("Python call failed with %s: %s, Rust returned status %s" % (type(ex).__name__, ex, want.get("status_name")))
    if "err" in want or "panic" in want:
        raise Violation("Rust solve_ivp failed (%s) but the Python call returned status %r" % (want.get("err") or want.get("panic"), res.status))

    def fail(msg):
        raise Violation("%s [method=%s n=%d kind=%s jac=%s sparsity=%s args=%s]" % (msg, case["method"], n, case["kind"], jm, meta["sparsity"] and meta["sparsity"]["fmt"], meta["use_args"]))

    t = np.asarray(res.t)
    y = np.asarray(res.y)
    m = len(want["t"])
    if t.shape != (m,):
        fail("t has shape %r, Rust returned %d samples" % (t.shape, m))
    if y.shape != (n, m):
        fail("y has shape %r, expected (%d, %d)" % (y.shape, n, m))
    for i in range(m):
        if bits(t[i]) != want["t"][i]:
            fail("t[%d] = %r differs from Rust %r" % (i, float(t[i]), unhex(want["t"][i])))
        for j in range(n):
            if bits(y[j, i]) != want["y"][i][j]:
                fail("y[%d,%d] = %r differs from Rust y[%d][%d] = %r" % (j, i, float(y[j, i]), i, j, unhex(want["y"][i][j])))
    if res.status != want["status"]:
        fail("status %r, Rust status %s maps to %r" % (res.status, want["status_name"], want["status"]))
    if res.status not in (0, 1, -1) or bool(res.success) != (res.status >= 0):
        fail("status/success inconsistent: status=%r success=%r" % (res.status, res.success))
    if res.nfev != want["nfev"] or res.nlu != want["nlu"]:
        fail("nfev/nlu = %r/%r, Rust %r/%r" % (res.nfev, res.nlu, want["nfev"], want["nlu"]))
    const_jac = jm in ("const", "const_sparse", "const_int")
    if res.njev != (0 if const_jac else want["njev"]):
        fail("njev = %r, Rust %r (constant Jacobian: %s)" % (res.njev, want["njev"], const_jac))
    if evs:
        if res.t_events is None or res.y_events is None or len(res.t_events) != len(evs) or len(res.y_events) != len(evs):
            fail("t_events/y_events missing or of wrong length")
        for k in range(len(evs)):
            te = np.asarray(res.t_events[k])
            wk = want["t_events"][k]
            if te.shape != (len(wk),):
                fail("t_events[%d] has shape %r, Rust has %d events" % (k, te.shape, len(wk)))
            ye = np.asarray(res.y_events[k])
            if len(wk) > 0 and ye.shape != (len(wk), n):
                fail("y_events[%d] has shape %r, expected (%d, %d)" % (k, ye.shape, len(wk), n))
            if len(wk) == 0 and ye.size != 0:
                fail("y_events[%d] not empty" % k)
            for q in range(len(wk)):
                if bits(te[q]) != wk[q]:
                    fail("t_events[%d][%d] differs" % (k, q))
                for j in range(n):
                    if bits(ye[q, j]) != want["y_events"][k][q][j]:
                        fail("y_events[%d][%d,%d] differs" % (k, q, j))
    else:
        if res.t_events is not None or res.y_events is not None:
            fail("t_events/y_events should be None without events")
    if case["dense_output"]:
        if res.sol is None:
            fail("dense_output requested but sol is None")
        if want["sol_span"] is not None:
            a, b = unhex(want["sol_span"][0]), unhex(want["sol_span"][1])
            qs = [a + f * (b - a) for f in case["queries"]]
            # the harness evaluated at fractions of [t0, tf]; recompute against the actual covered span here
            rq = RUST.solve(dict(case, queries=qs))
            inside = []
            for qv, w in zip(qs, rq["sol"]):
                if w is None:
                    continue
                v = np.asarray(res.sol(qv))
                if v.shape != (n,):
                    fail("sol(t) has shape %r, expected (%d,)" % (v.shape, n))
                for j in range(n):
                    if bits(v[j]) != w[j]:
                        fail("sol(%r)[%d] = %r differs from Rust %r" % (qv, j, float(v[j]), unhex(w[j])))
                inside.append((qv, w))
            if inside:
                arr = np.asarray(res.sol([q for q, _ in inside]))
                if arr.shape != (n, len(inside)):
                    fail("sol([..]) has shape %r, expected (%d, %d)" % (arr.shape, n, len(inside)))
                for k2, (_, w) in enumerate(inside):
                    for j in range(n):
                        if bits(arr[j, k2]) != w[j]:
                            fail("sol([..])[%d,%d] differs from Rust" % (j, k2))
    else:
        if res.sol is not None:
            fail("sol should be None without dense_output")
    if not prob.args_seen:
        fail("extra args did not reach fun/events/jac as given")
    if spars_arg is not None:
        # the pattern must change only the number of evaluations
        res2 = call(False)
        calls_dense = prob.calls
        if not (np.array_equal(np.asarray(res2.t), t) and np.array_equal(np.asarray(res2.y), y) and res2.status == res.status):
            fail("jac_sparsity changed the result")
        if calls_sparse > calls_dense:
            fail("jac_sparsity increased the number of right-hand-side calls: %d > %d" % (calls_sparse, calls_dense))
        pat = true_pattern(case) | np.array(meta["sparsity"]["extras"], dtype=bool)[:n, :n]
        # greedy colouring as documented: columns sharing a row may not share a group
        groups = []
        for col in range(n):
            rows = set(np.nonzero(pat[:, col])[0])
            for g in groups:
                if not (g & rows):
                    g |= rows
                    break
            else:
                groups.append(set(rows))
        ngroups_lt_n = len(groups) < n
        if ngroups_lt_n and want["njev"] > 0 and calls_sparse >= calls_dense:
            fail("the colouring has %d groups for %d columns and the Jacobian was evaluated %d times, but the sparse run made as many right-hand-side calls as the dense one (%d)" % (len(groups), n, want["njev"], calls_dense))
    if record:
        kinds = 0
        for flag in (case["t_eval"] is not None, case["dense_output"], bool(evs), meta["use_args"], jm != "none", spars_arg is not None,
                     case["first_step"] is not None, case["max_step"] is not None, case["max_steps"] is not None, not case["rtol_scalar"], not case["atol_scalar"]):
            kinds += 1 if flag else 0
        cls = "%s:%s" % (case["method"], want["status_name"])
        STATS["classes"][cls] = STATS["classes"].get(cls, 0) + 1
        if kinds >= 2:
            h = hashlib.sha1(json.dumps([case, meta], sort_keys=True).encode()).hexdigest()
            if h not in STATS["nontrivial"] and len(STATS["samples"]) < 3:
                STATS["samples"].append({"case": case, "meta": meta, "observed": {"samples": m, "status": want["status_name"], "nfev": want["nfev"], "option_kinds": kinds}})
            STATS["nontrivial"].add(h)
    return "ok"


def write_evidence(tier, wall, violations, n_examples):
    ev = {
        "property_id": "C20", "tier": tier, "seed": SEED, "level": "exploration",
        "coverage": {
            "evaluations": STATS["evaluations"],
            "distinct_nontrivial": len(STATS["nontrivial"]),
            "rule": "Hypothesis-generated cases: linear / Lotka-Volterra-type quadratic / rational right-hand sides written with + - * / in a fixed order (bit-identical in CPython and Rust), n<=6 (n<=8 for the one case in five that couples only neighbouring components), six methods, both directions, rtol/atol scalar or sequence, first_step, max_step, min_step, max_steps, t_eval (list or ndarray), dense_output, 0..3 events (single callable / list / tuple, terminal and direction attributes), extra args (must reach fun, events and jac), Jacobian callable / callable returning scipy sparse / constant ndarray / constant scipy sparse / constant integer ndarray, jac_sparsity as csc/csr/coo/lil superset patterns, return type list / tuple / float ndarray / int ndarray. Each case is solved by ivp.solve_ivp and by the Rust harness; shapes, every bit of t, y, t_events, y_events, sol(t), sol([t..]), status/success and counters are compared; with jac_sparsity the run is repeated without it. Non-trivial = at least two option kinds present. Distinct = sha1 of the canonical JSON of the case.",
            "samples": STATS["samples"],
            "class_histogram": STATS["classes"],
            "trivial_by_reason": STATS["trivial"],
            "requested_examples": n_examples,
            "exhaustive": False,
        },
        "assumptions": ["CPython float arithmetic and Rust f64 arithmetic are both IEEE-754 double without fused operations, so the right-hand sides agree bit for bit",
                        "dense ndarray jac_sparsity is rejected by the binding with an exception and is therefore outside 'option combinations accepted by the binding'"],
        "wall_s": wall, "violations": violations,
    }
    os.makedirs(os.path.join(VERIF_DIR, "evidence"), exist_ok=True)
    with open(os.path.join(VERIF_DIR, "evidence", "C20.json"), "w") as f:
        json.dump(ev, f, indent=1)


def main():
    tier = "quick"
    replay = None
    a = sys.argv[1:]
    i = 0
    while i < len(a):
        if a[i] == "--tier":
            tier = a[i + 1]
            i += 2
        elif a[i] == "--replay":
            replay = a[i + 1]
            i += 2
        else:
            i += 1
    if replay:
        d = json.load(open(replay))
        d = d.get("case", d)
        try:
            r = check_case(d["case"], d["meta"], record=False)
            print("replay C20: PASS (%s)" % r)
            return 0
        except Violation as v:
            print("  oracle: %s" % v)
            print("VIOLATION property=C20 replay=%s" % replay)
            return 1
    n_examples = int((1500 if tier == "quick" else 20000) * float(os.environ.get("VERIF_SCALE", "1")))
    t0 = time.time()
    last = {}

    @seed(SEED)
    @settings(max_examples=n_examples, database=None, deadline=None, derandomize=False,
              suppress_health_check=list(HealthCheck), print_blob=False)
    @given(cases())
    def prop(cm):
        case, meta = cm
        last["cm"] = (case, meta)
        STATS["evaluations"] += 1
        r = check_case(case, meta)
        if r != "ok":
            STATS["trivial"][r] = STATS["trivial"].get(r, 0) + 1

    violations = 0
    code = 0
    try:
        prop()
    except Violation as v:
        violations = 1
        case, meta = last["cm"]  # Hypothesis replays the minimal failing example last
        body = {"property": "C20", "message": str(v), "case": {"case": case, "meta": meta}}
        h = hashlib.sha1(json.dumps(body["case"], sort_keys=True).encode()).hexdigest()[:16]
        os.makedirs(os.path.join(VERIF_DIR, "replays"), exist_ok=True)
        path = os.path.join(VERIF_DIR, "replays", "C20-%s.json" % h)
        json.dump(body, open(path, "w"), indent=1)
        print("  oracle: %s" % v)
        print("VIOLATION property=C20 replay=%s" % path)
        code = 1
    wall = time.time() - t0
    write_evidence(tier, wall, violations, n_examples)
    nt = len(STATS["nontrivial"])
    print("C20 tier=%s seed=%d evaluations=%d distinct_nontrivial=%d trivial=%d wall=%.1fs" % (tier, SEED, STATS["evaluations"], nt, sum(STATS["trivial"].values()), wall))
    if code == 0 and (nt < 2 or nt < 0.3 * max(1, STATS["evaluations"])):
        print("GENERATOR-HEALTH property=C20 too few non-trivial cases (check is broken, not a violation)")
        return 2
    return code


if __name__ == "__main__":
    sys.exit(main())
