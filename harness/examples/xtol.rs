use ivp::prelude::*;
struct P { s: f64, c: f64 }
impl IVP for P {
    fn ode(&self, _x: f64, y: &[f64], d: &mut [f64]) { d[0] = -0.5 * y[0]; }
    fn n_events(&self) -> usize { 1 }
    fn events(&self, x: f64, _y: &[f64], out: &mut [f64]) { out[0] = self.s * (x - self.c); }
}
fn main() {
    for s in [1.0, 1e-6, 1e-13, 1e-170] {
        let p = P { s, c: 0.7371 };
        let o = Options::builder().method(Method::DOPRI5).rtol(1e-6).atol(1e-9).build();
        let r = solve_ivp(&p, 0.0, 2.0, &[1.0], o).unwrap();
        println!("scale {:e}: t = {:?}  t_events = {:?}", s, &r.t[..r.t.len().min(6)], r.t_events);
    }
}
