//! Stiff families with closed-form solutions (DESIGN §3.3) and classical nonlinear stiff problems.

use crate::instr::Rhs;
use serde::{Deserialize, Serialize};

/// slow signal A sin(w tau + p) + c
#[derive(Serialize, Deserialize, Clone, Debug)]
pub struct Sig {
    pub a: f64,
    pub w: f64,
    pub p: f64,
    pub c: f64,
}
impl Sig {
    pub fn v(&self, t: f64) -> f64 {
        self.a * (self.w * t + self.p).sin() + self.c
    }
    pub fn d(&self, t: f64) -> f64 {
        self.a * self.w * (self.w * t + self.p).cos()
    }
}

#[derive(Serialize, Deserialize, Clone, Debug)]
pub enum StiffSpec {
    /// triangular coupling: fast block (rates kappa^u_j) drives a slow block
    Tri { u: Vec<f64>, g: Vec<Sig>, d0: Vec<f64>, a: Vec<f64>, b: Vec<Vec<f64>>, h: Vec<Sig> },
    /// fully mixed basis: K = S diag(kappa^u_j) S^-1, S from Givens rotations and scalings
    Mixed { u: Vec<f64>, g: Vec<Sig>, d0: Vec<f64>, rot: Vec<(usize, usize, f64)>, scale: Vec<f64> },
    /// linear kinetics chain y' = A y, column sums zero (total mass conserved), rates kappa^u_j
    Chain { u: Vec<f64>, back: Vec<f64>, y0: Vec<f64> },
    /// Robertson
    Robertson,
    /// Van der Pol in Lienard-free form y1' = y2, y2' = mu((1-y1^2) y2) - y1 ... scaled: eps y2' = ...
    VdP { mu: f64 },
}

pub struct StiffProb {
    pub spec: StiffSpec,
    pub kappa: f64,
    pub x0: f64,
    pub dir: f64,
    pub n: usize,
    s: Vec<f64>,
    sinv: Vec<f64>,
    pub conds: f64,
}

fn matmul(a: &[f64], b: &[f64], n: usize) -> Vec<f64> {
    let mut c = vec![0.0; n * n];
    for i in 0..n {
        for k in 0..n {
            let aik = a[i * n + k];
            if aik == 0.0 {
                continue;
            }
            for j in 0..n {
                c[i * n + j] += aik * b[k * n + j];
            }
        }
    }
    c
}

impl StiffProb {
    pub fn new(spec: &StiffSpec, kappa: f64, x0: f64, dir: f64) -> StiffProb {
        let n = match spec {
            StiffSpec::Tri { u, a, .. } => u.len() + a.len(),
            StiffSpec::Mixed { u, .. } => u.len(),
            StiffSpec::Chain { u, .. } => u.len() + 1,
            StiffSpec::Robertson => 3,
            StiffSpec::VdP { .. } => 2,
        };
        let mut s = vec![0.0; n * n];
        let mut sinv = vec![0.0; n * n];
        let mut conds = 1.0;
        if let StiffSpec::Mixed { rot, scale, .. } = spec {
            for i in 0..n {
                s[i * n + i] = 1.0;
                sinv[i * n + i] = 1.0;
            }
            for &(i, j, ang) in rot {
                if n < 2 {
                    break;
                }
                let (i, j) = (i % n, j % n);
                if i == j {
                    continue;
                }
                let (sn, cs) = ang.sin_cos();
                let mut g = vec![0.0; n * n];
                for k in 0..n {
                    g[k * n + k] = 1.0;
                }
                g[i * n + i] = cs;
                g[j * n + j] = cs;
                g[i * n + j] = -sn;
                g[j * n + i] = sn;
                let mut gt = g.clone();
                gt[i * n + j] = sn;
                gt[j * n + i] = -sn;
                s = matmul(&g, &s, n);
                sinv = matmul(&sinv, &gt, n);
            }
            let (mut dmin, mut dmax) = (f64::INFINITY, 0.0f64);
            for i in 0..n {
                let d = scale.get(i).copied().unwrap_or(1.0);
                dmin = dmin.min(d);
                dmax = dmax.max(d);
                for j in 0..n {
                    s[i * n + j] *= d;
                    sinv[j * n + i] /= d;
                }
            }
            conds = (dmax / dmin) * n as f64;
        }
        StiffProb { spec: spec.clone(), kappa, x0, dir, n, s, sinv, conds }
    }
    fn tau(&self, t: f64) -> f64 {
        (t - self.x0) * self.dir
    }
    fn rate(&self, u: f64) -> f64 {
        self.kappa.powf(u)
    }
    pub fn y0(&self) -> Vec<f64> {
        match &self.spec {
            StiffSpec::Robertson => vec![1.0, 0.0, 0.0],
            StiffSpec::VdP { .. } => vec![2.0, 0.0],
            StiffSpec::Chain { y0, .. } => y0.clone(),
            _ => self.exact(self.x0).unwrap(),
        }
    }
    pub fn exact(&self, t: f64) -> Option<Vec<f64>> {
        let tau = self.tau(t);
        match &self.spec {
            StiffSpec::Tri { u, g, d0, a, b, h } => {
                let nf = u.len();
                let mut y = vec![0.0; self.n];
                for j in 0..nf {
                    y[j] = g[j].v(tau) + d0[j] * (-self.rate(u[j]) * tau).exp();
                }
                for i in 0..a.len() {
                    let mut w = 0.0;
                    for j in 0..nf {
                        let k = self.rate(u[j]);
                        w += b[i][j] * d0[j] * ((-k * tau).exp() - (a[i] * tau).exp()) / (-k - a[i]);
                    }
                    y[nf + i] = h[i].v(tau) + w;
                }
                Some(y)
            }
            StiffSpec::Mixed { u, g, d0, .. } => {
                let n = self.n;
                // y = g + S e^{-k tau} d0   (d0 given in the eigenbasis)
                let mut y: Vec<f64> = (0..n).map(|i| g[i].v(tau)).collect();
                for i in 0..n {
                    for j in 0..n {
                        y[i] += self.s[i * n + j] * d0[j] * (-self.rate(u[j]) * tau).exp();
                    }
                }
                Some(y)
            }
            _ => None,
        }
    }
    /// weights of linear invariants (w.y conserved)
    pub fn invariant(&self) -> Option<Vec<f64>> {
        match &self.spec {
            StiffSpec::Robertson | StiffSpec::Chain { .. } => Some(vec![1.0; self.n]),
            _ => None,
        }
    }
}

impl Rhs for StiffProb {
    fn dim(&self) -> usize {
        self.n
    }
    fn f(&self, t: f64, y: &[f64], dy: &mut [f64]) {
        let tau = self.tau(t);
        let c = self.dir;
        match &self.spec {
            StiffSpec::Tri { u, g, a, b, h, .. } => {
                let nf = u.len();
                for j in 0..nf {
                    dy[j] = c * (-self.rate(u[j]) * (y[j] - g[j].v(tau)) + g[j].d(tau));
                }
                for i in 0..a.len() {
                    let mut acc = a[i] * y[nf + i];
                    let mut ci = h[i].d(tau) - a[i] * h[i].v(tau);
                    for j in 0..nf {
                        acc += b[i][j] * y[j];
                        ci -= b[i][j] * g[j].v(tau);
                    }
                    dy[nf + i] = c * (acc + ci);
                }
            }
            StiffSpec::Mixed { u, g, .. } => {
                let n = self.n;
                // y' = -S K S^-1 (y - g) + g'
                let mut z = vec![0.0; n];
                for i in 0..n {
                    let mut acc = 0.0;
                    for j in 0..n {
                        acc += self.sinv[i * n + j] * (y[j] - g[j].v(tau));
                    }
                    z[i] = -self.rate(u[i]) * acc;
                }
                for i in 0..n {
                    let mut acc = 0.0;
                    for j in 0..n {
                        acc += self.s[i * n + j] * z[j];
                    }
                    dy[i] = c * (acc + g[i].d(tau));
                }
            }
            StiffSpec::Chain { u, back, .. } => {
                let n = self.n;
                for v in dy.iter_mut() {
                    *v = 0.0;
                }
                for j in 0..n - 1 {
                    let kf = self.rate(u[j]);
                    let kb = back[j] * kf * 0.1;
                    let flux = kf * y[j] - kb * y[j + 1];
                    dy[j] -= c * flux;
                    dy[j + 1] += c * flux;
                }
            }
            StiffSpec::Robertson => {
                let (a, b, cc) = (0.04, 3.0e7, 1.0e4);
                dy[0] = c * (-a * y[0] + cc * y[1] * y[2]);
                dy[1] = c * (a * y[0] - cc * y[1] * y[2] - b * y[1] * y[1]);
                dy[2] = c * (b * y[1] * y[1]);
            }
            StiffSpec::VdP { mu } => {
                dy[0] = c * y[1];
                dy[1] = c * (mu * ((1.0 - y[0] * y[0]) * y[1]) - y[0]);
            }
        }
    }
    fn has_jac(&self) -> bool {
        true
    }
    fn jac_dense(&self, _t: f64, y: &[f64], j: &mut [f64]) {
        let n = self.n;
        let c = self.dir;
        for v in j.iter_mut() {
            *v = 0.0;
        }
        match &self.spec {
            StiffSpec::Tri { u, a, b, .. } => {
                let nf = u.len();
                for q in 0..nf {
                    j[q * n + q] = -c * self.rate(u[q]);
                }
                for i in 0..a.len() {
                    j[(nf + i) * n + nf + i] = c * a[i];
                    for q in 0..nf {
                        j[(nf + i) * n + q] = c * b[i][q];
                    }
                }
            }
            StiffSpec::Mixed { u, .. } => {
                let mut ks = vec![0.0; n * n];
                for i in 0..n {
                    for q in 0..n {
                        ks[i * n + q] = -self.rate(u[i]) * self.sinv[i * n + q];
                    }
                }
                let m = matmul(&self.s, &ks, n);
                for (o, v) in j.iter_mut().zip(&m) {
                    *o = c * v;
                }
            }
            StiffSpec::Chain { u, back, .. } => {
                for q in 0..n - 1 {
                    let kf = self.rate(u[q]);
                    let kb = back[q] * kf * 0.1;
                    j[q * n + q] -= c * kf;
                    j[q * n + q + 1] += c * kb;
                    j[(q + 1) * n + q] += c * kf;
                    j[(q + 1) * n + q + 1] -= c * kb;
                }
            }
            StiffSpec::Robertson => {
                let (a, b, cc) = (0.04, 3.0e7, 1.0e4);
                j[0] = -c * a;
                j[1] = c * cc * y[2];
                j[2] = c * cc * y[1];
                j[3] = c * a;
                j[4] = c * (-cc * y[2] - 2.0 * b * y[1]);
                j[5] = -c * cc * y[1];
                j[7] = c * 2.0 * b * y[1];
            }
            StiffSpec::VdP { mu } => {
                j[1] = c;
                j[2] = c * (-2.0 * mu * y[0] * y[1] - 1.0);
                j[3] = c * mu * (1.0 - y[0] * y[0]);
            }
        }
    }
}
