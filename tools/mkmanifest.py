#!/usr/bin/env python3
"""Regenerate /verif/MANIFEST.json from the table below (keeps the manifest valid by construction)."""
import json, os, sys
HERE = os.path.dirname(os.path.dirname(os.path.abspath(__file__)))

# id -> (technique, level text, level note, design ref)
CHECKS = {
 "C16": ("property-based testing (proptest) + coverage-guided libFuzzer campaign with the same oracle (thorough tier) against a reference GEPP + exact rational elimination; exhaustive small-integer enumeration; Higham backward-error bound in double-double",
         "Generated search over real/complex matrices n<=12 of seven structural kinds with a rigorous backward-error oracle, plus complete enumeration of 3x3 matrices over {-1,0,1} (quick) / {-2..2} (thorough) for the singular<=>rejected equivalence. Exploration is the right level: the property is a numerical inequality over a continuum of inputs; the oracle is rigorous so one counterexample is decisive.",
         "Trusts the harness's reference elimination and double-double residual; constants 4/16 over the rigorous 1.5 n eps bound.", "DESIGN.md §4 C16"),
 "C17": ("model-based property testing (proptest) + coverage-guided libFuzzer campaign with the same oracle (thorough tier): operation sequences against a dense Vec<f64> model; exhaustive constructor x bandwidth x operation enumeration",
         "Stateful generated sequences of <=12 matrix operations on operands from every public constructor, every entry compared with a dense model after every step; exhaustive over all (n<=5 quick / 8 thorough, ml, mu) x constructor x single operation.",
         "Dense model in the harness is the specification; numeric (==) equality of entries.", "DESIGN.md §4 C17"),
}
CHECKS["C03"] = ("property-based testing (proptest) + coverage-guided libFuzzer campaign with the same oracle (thorough tier): generated configurations, invariant over the returned Solution and the call log of an instrumented IVP",
         "Generated search over problems x spans (1e-11..1e6, both directions, infinite with terminal event) x six methods x first_step/max_step/t_eval/dense/events/max_steps combinations; every ode/events/jac call time is recorded by an instrumented IVP and the status<->coverage equivalences are evaluated on each run.",
         "Time slack 4 ulp; 'xend to rounding' = 32 ulp; spans from 2e-15 to 1e6 and 8..1e5 ulps long at |x0| up to 1e12; 8% of the cases with a right-hand side turning non-finite; panics/hangs are owned by C04.", "DESIGN.md §4 C03")
CHECKS["C12"] = ("metamorphic property-based testing (proptest): plain run vs the 7 option subsets, a repeat, and the same call on a fresh thread; bit-identity of samples, statistics and a hash of every right-hand-side argument",
         "Each generated case is solved under all subsets of {t_eval, dense_output, non-terminal events}; the instrumented IVP hashes the bits of every (t,y) passed to the right-hand side, so 'the stepper did not notice the observer' is decided exactly.",
         "Bit-identity; dense span end compared to 1e-12 + 4 ulp.", "DESIGN.md §4 C12")
CHECKS["C18"] = ("property-based testing with fault injection (proptest) against call counters of an instrumented IVP (solve_ivp and the low-level Radau/BDF builders; first steps that make the iteration matrix exactly singular)",
         "Generated problems/methods/tolerances/Jacobian sources; nfev, njev, naccpt, nstep compared with the calls actually observed (finite-difference evaluations separated by a flag set while the crate's default IVP::jac runs).",
         "One events() call per accepted step is used to count accepted steps (public hook).", "DESIGN.md §4 C18")
CHECKS["C11"] = ("property-based testing (proptest): step sequence and first trial step observed through an instrumented IVP; budgeted run vs unbudgeted twin (bit-identical prefix)",
         "Generated slow problems where the controller wants steps longer than max_step; accepted-step lengths from the events hook, first trial step from recorded right-hand-side times, step budget by differential comparison with the unbudgeted run.",
         "Slack 1e-12 relative/absolute on step lengths; off-by-one tolerance in where solvers test the budget.", "DESIGN.md §4 C11")
CHECKS["C19"] = ("stateful property-based testing (proptest): scripted callback histories (Interrupt / no-op / doubling / XOut answers at generated indices) against the undisturbed history of the same low-level solver",
         "Histories over all six low-level solvers with a recording SolOut: first-call/contiguity/interpolant-endpoint invariants on every callback, Interrupt stops without further evaluations (counted by the instrumented IVP), untouched ModifiedSolution is a bit-exact no-op, doubling a linear homogeneous state doubles everything after it bit-exactly for explicit methods.",
         "BDF (history restart) and implicit doubling only to tolerance, except doubling at the initial call with the analytic Jacobian (exactly twice the no-op ModifiedSolution run); contiguity to 8 ulp.", "DESIGN.md §4 C19")
CHECKS["C06"] = ("property-based testing (proptest): dense output vs the accepted-step grid and states observed through the events hook; generated interior / outside query points",
         "Generated problems (incl. mildly stiff ones for BDF order changes and Radau rejections), options and query points; the true step grid and states come from one events() call per accepted step, so span coverage, end-point reproduction, continuity across boundaries and error kinds are decided per step of every run.",
         "Tolerances 1e-10(1+|y|) + 8 max|f| ulp(t); 'clearly outside' = 1e-9 + 256 ulp(t); low-level runs whose callback answers XOut (dense output on demand) for the per-step interpolant.", "DESIGN.md §4 C06")
CHECKS["C08"] = ("two-phase property-based testing (proptest): event roots placed relative to the plain run's step grid; validity predicate over every reported event",
         "Roots of 1..4 generated event functions are placed mid-step, 1e-13..1e-9 beside a step end, or several in one step; each reported event is checked for bracket membership, agreement with the dense solution, |g| against a Lipschitz-scaled root-finder bound, direction in integration order, ordering and shapes.",
         "Sampled Lipschitz constant (64 sub-intervals, x2); event functions with exact power-of-two factors 2^-1000..2^900, strictly positive ones, picosecond spans, zero-length run.", "DESIGN.md §4 C08")
CHECKS["C09"] = ("two-phase property-based testing (proptest) + libFuzzer campaign (thorough tier): sign pattern of g at the accepted steps vs reported events (exactly-one / none matching)",
         "Same two-phase placement; for every function and step the strict sign pattern at the step ends decides whether exactly one, none or any event may be attributed to the step; single-root time events must be found exactly once and located to 4e-12.",
         "Exact zeros at step ends are skipped (SciPy semantics, as the property allows).", "DESIGN.md §4 C09")
CHECKS["C05"] = ("two-phase metamorphic property-based testing (proptest) + coverage-guided libFuzzer campaign with the same oracle (thorough tier): requested times placed on / beside / between the plain run's step ends; bitwise comparison with t_eval and with the dense twin's Solution::sol",
         "Requested times are generated relative to the solver's own step grid (on a step end, 1e-13..1e-9 beside it, mid-step, duplicates, x0, xend), with terminal / non-terminal events and step budgets; exact oracles (bit equality of times and of interpolated values) plus the C01 accuracy bound and the early-stop completeness rule.",
         "Handler resolution 1e-12 as documented (beyond a terminal stop only for a requested time that close behind an earlier accepted step end); accuracy constant as in C01.", "DESIGN.md §4 C05")
CHECKS["C10"] = ("two-phase differential property-based testing (proptest): the same run with and without the terminal flags (twin), bit-identical prefix; twin vs the same run without t_eval (same event times)",
         "Event roots placed relative to the step grid (several functions in one step, either order), occurrence counts 1..3, with/without t_eval and dense output; the twin run without terminal flags defines where the run must stop and what must have been reported before.",
         "Ties of two terminal functions at the same instant skipped.", "DESIGN.md §4 C10")
CHECKS["C04"] = ("property-based testing with fault injection (proptest) + coverage-guided libFuzzer campaign with the same oracle (thorough tier): pathological right-hand sides and injected NaN/inf under a deterministic evaluation budget",
         "Generated blow-up / stiff / discontinuous problems and benign problems whose right-hand side turns non-finite at a generated time, through an instrumented IVP that aborts the run after 2e6 evaluations: termination is decided by a deterministic work count, panics are caught, Success with non-finite states is rejected; 'resonant' cases make the iteration matrix of Radau/BDF exactly singular at the first attempt and compare with a twin run. One genuine, unrepaired finding (K3: creep at the boundary of a state-dependent non-finite region) is keyed by a narrow diagnosis and excluded.",
         "Budget 2e6 evaluations vs <=1.2e5 observed; RK4 only required to terminate.", "DESIGN.md §4 C04")
CHECKS["C13"] = ("metamorphic property-based testing (proptest): time reflection, power-of-two scaling, scalar-vs-vector tolerance, independent copies; bit-identity where the symmetry is exact in floating point",
         "Each generated problem is solved together with its transformed twin; the relations are exact in IEEE arithmetic (negation, multiplication by 2^k, duplication), so for explicit methods and user-Jacobian implicit ones any difference in a single bit is a counterexample.",
         "R4 only with first_step given; Radau/BDF under R4 and FD-Jacobian scaling only to tolerance (documented in DESIGN).", "DESIGN.md §4 C13")
CHECKS["C01"] = ("property-based testing (proptest) against closed-form exact solutions: tolerance ladders, per-component bounds, RK4 convergence order",
         "Problems are constructed from exact solutions (stacked closed-form blocks, time-warp, linear mixing) with an a-priori amplification bound kappa; every returned sample of every rung of a tolerance ladder is compared with the exact solution against C*kappa*naccpt*tolscale; decoupled problems pin per-component tolerances; RK4 is checked for fourth-order convergence; a third of the problems are posed in units of 2^-40..2^40; 1/13 of the cases are random dissipative vector fields against the harness's own reference integrator. Three genuine, unrepaired findings (K1 vanishing embedded error estimate, K2 interpolation inside coarse steps, K4 finite-difference Jacobian of a small state) are keyed by narrow diagnoses and excluded.",
         "C = 100 (ratio typically < 0.2, heavy tail: largest passing ratio 97 over 2e7 cases; the evidence reports the tail histogram and the case closest to the bound); Radau's documented internal tolerance transformation is modelled in the absolute-dominated mode.", "DESIGN.md §4 C01")
CHECKS["C02"] = ("property-based testing (proptest) + exhaustive rooted-tree enumeration: Butcher weights extracted from the compiled steppers with a unit-vector right-hand side; local-error slopes; Pade approximant; Radau one-step vs the harness's own collocation solution (nonlinear problems); XOut / no-callback twin runs; polynomial quadrature; step-count scaling",
         "The stage weights the explicit steppers actually apply (one step, a clipped step, two consecutive steps, dense output on/off, generated x0 and h = +-2^k) are extracted exactly and checked against every rooted-tree order condition up to p (200 trees for DOP853); Radau is checked against the (2,3) Pade approximant over generated complex z; the embedded estimators through exact polynomial quadrature and tolerance scaling.",
         "Assumes the documented stage evaluation order; slope thresholds calibrated on the repaired tree.", "DESIGN.md §4 C02")
CHECKS["C07"] = ("property-based testing (proptest) against exact solutions: convergence slope of the step interpolant's max-over-theta error; interior samples of full runs vs neighbouring step ends; XOut twin runs (bit-identical interpolants); low-level DOPRI5/DOP853 runs with the stiffness test on every 1st..5th step",
         "Single steps from exact data with the interpolant probed on a theta grid under five refinements give the interpolation order; full runs of all six methods on general closed-form problems compare Solution::sol at generated interior positions of every step with the exact solution relative to the step-end errors.",
         "Slope thresholds calibrated on the repaired tree; steps with h*rate > 1 skipped in the full-run clause.", "DESIGN.md §4 C07")
CHECKS["C14"] = ("property-based testing (proptest) against closed-form stiff problems; differential runs at kappa and kappa=1e2 and from a shifted start time; Radau-vs-BDF agreement; linear invariants",
         "Stiff linear problems with exact solutions (triangular coupling up to kappa = 1e10, mixed basis up to 1e6) with O(1) initial transients, kinetics chains, Robertson and Van der Pol: Success, accuracy against the exact solution, step/evaluation counts compared with the same problem at kappa = 1e2, invariants, with analytic and finite-difference Jacobians.",
         "Mixed-basis family restricted to kappa <= 1e6, rtol >= 1e-6 (conditioning of the right-hand side itself); invariant limit includes the right-hand side's own rounding.", "DESIGN.md §4 C14")
CHECKS["C15"] = ("differential / metamorphic property-based testing (proptest): equivalent formulations and storages of mass matrix and Jacobian, exact solutions for mass-matrix ODEs and index-1 DAEs",
         "M y' = M g and index-1 DAEs built on closed-form ODEs are solved by Radau and compared with the exact solution and the constraint; Identity/Full/Banded mass storage, Full/Banded Jacobian storage (non-dominant couplings that force pivoting), high-level Options path vs low-level builder defaults and analytic vs finite-difference Jacobian are compared bit-for-bit or to tolerance.",
         "Bound constants as C01; mass matrices diagonally dominant (cond <= 5).", "DESIGN.md §4 C15")
CHECKS["C20"] = ("differential property-based testing (Hypothesis, python3-vt): ivp.solve_ivp of the freshly built extension module vs the Rust solve_ivp (harness child process), bit-for-bit",
         "Hypothesis generates problems whose right-hand sides use only + - * / in a fixed order (bit-identical in CPython and Rust) with every option the binding accepts; shapes, every bit of t/y/events/sol, status and counters are compared with the Rust harness; args delivery, constant/callable/sparse Jacobians and sparsity patterns (result unchanged, fewer calls) are checked.",
         "Needs python3-vt with numpy/scipy/hypothesis (present); exit 2 if the extension cannot be built or imported.", "DESIGN.md §4 C20")
PENDING = {}

def main():
    props = [json.loads(l) for l in open(os.path.join(HERE, "properties.jsonl"))]
    checks, na = [], []
    for p in props:
        pid = p["id"]
        if pid in CHECKS:
            tech, text, note, ref = CHECKS[pid]
            checks.append({
                "property_id": pid,
                "quick_cmd": f"./check {pid} --tier quick",
                "thorough_cmd": f"./check {pid} --tier thorough",
                "evidence_file": f"/verif/evidence/{pid}.json",
                "replay_cmd_template": f"./check {pid} --replay {{path}}",
                "engine": "c20" if pid == "C20" else "vf",
                "level_claimed": {"category": "exploration", "text": text, "design_ref": ref},
                "level_note": note,
                "technique": tech,
            })
        else:
            na.append({"property_id": pid, "reason": PENDING.get(pid, "check not yet built in this commit (construction in progress; see DESIGN.md §4 for the planned generator and oracle)")})
    man = {
        "version": 1,
        "setup_cmd": "cd /verif/harness && CARGO_NET_OFFLINE=true cargo build --release --offline && mkdir -p /verif/py/build && cd /repo && CARGO_NET_OFFLINE=true cargo build --features python --lib --offline --target-dir /verif/py/build/target",
        "hooks": {
            "guard": "ryan_d_gast_ivp_verif",
            "enable": "no hooks are needed: every observation point is public API (solve_ivp, solver builders, SolOut, IVP, Matrix, lu_decomp/lin_solve, the python cargo feature); the cfg name is reserved and unused",
            "baseline_off_cmd": "cd /repo && cargo test --workspace --no-fail-fast --offline",
            "source_commits": [],
            "add_only": True,
        },
        "engines": [
            {"name": "c20", "path": "/verif/py", "serves_properties": ["C20"], "kind_free_text": "Hypothesis test driver (python3-vt) + `vf pycase` child process; builds the extension with cargo --features python into /verif/py/build"},
            {"name": "vf", "path": "/verif/harness", "serves_properties": sorted(k for k in CHECKS.keys() if k != "C20"),
             "kind_free_text": "Rust binary: proptest strategies driven through TestRunner-seeded value trees in 16 shards, explicit oracles, own shrinking loop, JSON replay, evidence writer"},
        ],
        "checks": checks,
        "not_applicable": na,
        "notes": "All checks: exit 0 held / 1 VIOLATION line / 2 inconclusive (watchdog, generator-health, build failure). VERIF_SEED and VERIF_TIER are honoured. known_findings.json lists genuine defects (state known|fixed).",
    }
    json.dump(man, open(os.path.join(HERE, "MANIFEST.json"), "w"), indent=1)
    print("wrote MANIFEST.json with", len(checks), "checks,", len(na), "not_applicable")

if __name__ == "__main__":
    main()
