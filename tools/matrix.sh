#!/usr/bin/env bash
# tools/matrix.sh  -- apply every stored seeded change to /repo in turn, run every quick check, record which checks flag it.
# Writes /verif/seeded/MATRIX.tsv (seed <tab> check <tab> rc).  /repo is restored after each seed.  Do not run checks concurrently.
cd /verif
out=/verif/seeded/MATRIX.tsv; : > "$out"
ids=$(python3 -c "import json; print(' '.join(c['property_id'] for c in json.load(open('MANIFEST.json'))['checks']))")
for d in seeded/C*/; do
  s=$(basename "$d")
  git -C /repo reset -q --hard HEAD
  git -C /repo apply "/verif/$d/patch.diff" || { echo "$s APPLYFAIL" >> "$out"; continue; }
  for id in $ids; do
    # the Python differential compares binding and core built from the same tree: only binding changes can show
    if [ "$id" = C20 ] && [ "${s%-*}" != C20 ]; then continue; fi
    VERIF_SCALE=${MATRIX_SCALE:-1} ./check "$id" --tier quick >/tmp/matrix.last 2>&1; rc=$?
    printf "%s\t%s\t%s\n" "$s" "$id" "$rc" >> "$out"
  done
  git -C /repo reset -q --hard HEAD
done
echo done >> "$out"
