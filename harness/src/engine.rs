//! Generic driver: proptest strategies -> oracle -> statistics / shrinking / replay / evidence.
//!
//! All randomness comes from proptest's `TestRng`, seeded from VERIF_SEED, the property id and
//! the shard number.  No wall clock and no other RNG is consulted inside a property.

use proptest::strategy::{Strategy, ValueTree};
use proptest::test_runner::{Config, RngAlgorithm, TestRng, TestRunner};
use rayon::prelude::*;
use serde::{de::DeserializeOwned, Serialize};
use serde_json::{json, Value};
use std::collections::{BTreeMap, HashSet};
use std::panic::{catch_unwind, AssertUnwindSafe};
use std::sync::atomic::{AtomicBool, Ordering};

use crate::util::fnv64;

/// Result of evaluating the oracle on one case.
#[derive(Debug, Clone)]
pub enum Outcome {
    /// Property held.  `class` feeds the histogram; `nontrivial` per the property's stated rule.
    Pass { class: String, nontrivial: bool, summary: Value },
    /// The case could not exercise the property (counted by reason).
    Trivial(String),
    /// The property is violated.  `key` names the root-cause signature used for matching known
    /// findings ("" when no narrow signature applies).
    Violation { key: String, msg: String },
}

impl Outcome {
    pub fn pass(class: impl Into<String>, nontrivial: bool, summary: Value) -> Outcome {
        Outcome::Pass { class: class.into(), nontrivial, summary }
    }
    pub fn triv(s: impl Into<String>) -> Outcome {
        Outcome::Trivial(s.into())
    }
    pub fn viol(msg: impl Into<String>) -> Outcome {
        Outcome::Violation { key: String::new(), msg: msg.into() }
    }
    pub fn viol_key(key: impl Into<String>, msg: impl Into<String>) -> Outcome {
        Outcome::Violation { key: key.into(), msg: msg.into() }
    }
}

#[derive(Clone, Copy, Debug, PartialEq, Eq)]
pub enum Tier {
    Quick,
    Thorough,
}

impl Tier {
    pub fn name(self) -> &'static str {
        match self {
            Tier::Quick => "quick",
            Tier::Thorough => "thorough",
        }
    }
}

/// Global run context (from CLI / environment).
#[derive(Clone, Debug)]
pub struct Ctx {
    pub tier: Tier,
    pub seed: u64,
    pub verif_dir: String,
    pub shards: usize,
    /// multiplies every case count (used by background deep runs)
    pub scale: f64,
}

/// A known (listed, unrepaired) finding: violations whose key equals `key` are excluded.
#[derive(Clone, Debug)]
pub struct Known {
    pub property: String,
    pub key: String,
    pub what: String,
}

#[derive(Default)]
pub struct Stats {
    pub evaluations: u64,
    pub nontrivial_hashes: HashSet<u64>,
    pub classes: BTreeMap<String, u64>,
    pub trivial: BTreeMap<String, u64>,
    pub excluded: BTreeMap<String, u64>,
    pub samples: Vec<Value>,
    pub violation: Option<(Value, String, String)>, // (case json, key, msg)
    pub exhaustive_part: Option<Value>,
    pub extra: BTreeMap<String, Value>,
    /// per numeric field of the oracle's summary: largest value seen (calibration aid)
    pub maxima: BTreeMap<String, f64>,
    /// how often a passing case used more than 1/30, 1/10, 1/3 of an oracle's bound (keys: ratios with bound 1 or a stated constant)
    pub tails: BTreeMap<String, u64>,
    /// the passing case that came closest to each ratio-type bound
    pub argmax: BTreeMap<String, (f64, serde_json::Value)>,
}

impl Stats {
    fn merge(&mut self, o: Stats) {
        self.evaluations += o.evaluations;
        self.nontrivial_hashes.extend(o.nontrivial_hashes);
        for (k, v) in o.classes {
            *self.classes.entry(k).or_default() += v;
        }
        for (k, v) in o.trivial {
            *self.trivial.entry(k).or_default() += v;
        }
        for (k, v) in o.excluded {
            *self.excluded.entry(k).or_default() += v;
        }
        for s in o.samples {
            if self.samples.len() < 6 {
                self.samples.push(s);
            }
        }
        if self.violation.is_none() {
            self.violation = o.violation;
        }
        for (k, v) in o.extra {
            self.extra.entry(k).or_insert(v);
        }
        for (k, v) in o.tails {
            *self.tails.entry(k).or_default() += v;
        }
        for (k, v) in o.argmax {
            let better = self.argmax.get(&k).map_or(true, |e| v.0 > e.0);
            if better {
                self.argmax.insert(k, v);
            }
        }
        for (k, v) in o.maxima {
            let e = self.maxima.entry(k).or_insert(f64::NEG_INFINITY);
            if v > *e {
                *e = v;
            }
        }
    }

    /// record one evaluated case
    pub fn record<C: Serialize>(&mut self, case: &C, out: &Outcome, known: &[Known]) -> bool {
        self.evaluations += 1;
        match out {
            Outcome::Pass { class, nontrivial, summary } => {
                *self.classes.entry(class.clone()).or_default() += 1;
                if let Some(obj) = summary.as_object() {
                    for (k, v) in obj {
                        if let Some(x) = v.as_f64() {
                            let e = self.maxima.entry(k.clone()).or_insert(f64::NEG_INFINITY);
                            if x > *e {
                                *e = x;
                            }
                            if k.contains("ratio") || k.contains("_over_") {
                                if x >= 1.0 && self.argmax.get(k).map_or(true, |e| x > e.0) {
                                    self.argmax.insert(k.clone(), (x, json!({"case": serde_json::to_value(case).unwrap(), "observed": summary})));
                                }
                                for th in [3.0, 10.0, 30.0] {
                                    if x >= th {
                                        *self.tails.entry(format!("{}>={}", k, th)).or_default() += 1;
                                    }
                                }
                            }
                        }
                    }
                }
                if *nontrivial {
                    let js = serde_json::to_string(case).unwrap();
                    let fresh = self.nontrivial_hashes.insert(fnv64(js.as_bytes()));
                    if fresh && self.samples.len() < 3 {
                        self.samples.push(json!({"case": serde_json::to_value(case).unwrap(),
                                                  "class": class, "observed": summary}));
                    }
                }
                false
            }
            Outcome::Trivial(why) => {
                *self.trivial.entry(why.clone()).or_default() += 1;
                false
            }
            Outcome::Violation { key, msg } => {
                if !key.is_empty() && known.iter().any(|k| &k.key == key) {
                    let c = self.excluded.entry(key.clone()).or_default();
                    *c += 1;
                    if *c == 1 {
                        // keep one reproduction of the listed finding (run-time artefact, not the committed list)
                        self.extra.insert(format!("known_finding_example_{}", key), json!({"case": serde_json::to_value(case).unwrap(), "message": msg}));
                    }
                    false
                } else {
                    if self.violation.is_none() {
                        self.violation =
                            Some((serde_json::to_value(case).unwrap(), key.clone(), msg.clone()));
                    }
                    true
                }
            }
        }
    }
}

/// Evaluate the oracle, converting an escaped panic into a violation (harness oracles catch the
/// crate's panics themselves where a panic is *not* a violation of the property at hand).
pub fn eval<C>(check: &(dyn Fn(&C) -> Outcome + Sync), case: &C) -> Outcome {
    match catch_unwind(AssertUnwindSafe(|| check(case))) {
        Ok(o) => o,
        Err(p) => Outcome::Violation { key: "panic".into(), msg: format!("panic: {}", crate::util::panic_msg(&p)) },
    }
}

fn mk_runner(seed: u64) -> TestRunner {
    let mut bytes = [0u8; 32];
    for i in 0..4 {
        let w = seed
            .wrapping_add(i as u64)
            .wrapping_mul(0x9E37_79B9_7F4A_7C15)
            .rotate_left(17 * (i as u32 + 1));
        bytes[i * 8..i * 8 + 8].copy_from_slice(&w.to_le_bytes());
    }
    let rng = TestRng::from_seed(RngAlgorithm::ChaCha, &bytes);
    let cfg = Config { failure_persistence: None, ..Config::default() };
    TestRunner::new_with_rng(cfg, rng)
}

/// Run `cases` generated cases of `strategy` through `check`, sharded over the rayon pool.
pub fn run_generated<C>(
    ctx: &Ctx,
    id: &str,
    part: &str,
    mk: &(dyn Fn() -> proptest::strategy::BoxedStrategy<C> + Sync),
    check: &(dyn Fn(&C) -> Outcome + Sync),
    cases: u64,
    known: &[Known],
) -> Stats
where
    C: Serialize + Clone + std::fmt::Debug + Send,
{
    let cases = ((cases as f64) * ctx.scale).ceil() as u64;
    let shards = ctx.shards.max(1) as u64;
    let stop = AtomicBool::new(false);
    let base = ctx.seed ^ fnv64(id.as_bytes()) ^ fnv64(part.as_bytes()).rotate_left(7);
    let results: Vec<Stats> = (0..shards)
        .into_par_iter()
        .map(|sh| {
            let mut st = Stats::default();
            let strategy = mk();
            let n = cases / shards + if sh < cases % shards { 1 } else { 0 };
            let mut runner = mk_runner(base ^ (sh.wrapping_mul(0xD6E8_FEB8_6659_FD93)));
            for _ in 0..n {
                if stop.load(Ordering::Relaxed) {
                    break;
                }
                let mut tree = match strategy.new_tree(&mut runner) {
                    Ok(t) => t,
                    Err(_) => {
                        *st.trivial.entry("generator-reject".into()).or_default() += 1;
                        continue;
                    }
                };
                let case = tree.current();
                if std::env::var("VF_TRACE").is_ok() {
                    eprintln!("TRACE {}", serde_json::to_string(&case).unwrap());
                }
                let w_before = crate::instr::WORK.with(|w| w.get());
                let out = eval(check, &case);
                let w_case = crate::instr::WORK.with(|w| w.get()) - w_before;
                let failed = st.record(&case, &out, known);
                if failed {
                    stop.store(true, Ordering::Relaxed);
                    // shrink: keep the same violation key, never a known finding
                    let key0 = match &out {
                        Outcome::Violation { key, .. } => key.clone(),
                        _ => unreachable!(),
                    };
                    let mut best = (case.clone(), out.clone());
                    // a failing case that already costs a lot of work (e.g. a run that no longer
                    // terminates) is reported as it is: shrinking it would take minutes
                    let mut budget = if w_case > 200_000 { 0u32 } else { 1500u32 };
                    // shrinking is also bounded by work: a failing case of a broken solver can be slow
                    let work0 = crate::instr::WORK.with(|w| w.get());
                    'outer: while budget > 0 && tree.simplify() {
                        loop {
                            budget -= 1;
                            if crate::instr::WORK.with(|w| w.get()) - work0 > 2_000_000 {
                                break 'outer;
                            }
                            let c = tree.current();
                            let o = eval(check, &c);
                            let still = matches!(&o, Outcome::Violation{key, ..} if *key == key0);
                            if still {
                                best = (c, o);
                                break;
                            }
                            if budget == 0 || !tree.complicate() {
                                break 'outer;
                            }
                        }
                    }
                    if let Outcome::Violation { key, msg } = &best.1 {
                        st.violation = Some((serde_json::to_value(&best.0).unwrap(), key.clone(), msg.clone()));
                    }
                    break;
                }
            }
            st
        })
        .collect();
    let mut total = Stats::default();
    for r in results {
        total.merge(r);
    }
    total
}

/// Run a fixed list of cases (exhaustive enumerations, regression replays).
pub fn run_list<C>(
    cases: &[C],
    check: &(dyn Fn(&C) -> Outcome + Sync),
    known: &[Known],
) -> Stats
where
    C: Serialize + Clone + Sync + Send,
{
    let chunk = (cases.len() / 64).max(1);
    let results: Vec<Stats> = cases
        .par_chunks(chunk)
        .map(|cs| {
            let mut st = Stats::default();
            for c in cs {
                let out = eval(check, c);
                if st.record(c, &out, known) {
                    break;
                }
            }
            st
        })
        .collect();
    let mut total = Stats::default();
    for r in results {
        total.merge(r);
    }
    total
}

pub fn merge(a: &mut Stats, b: Stats) {
    let ex = b.exhaustive_part.clone();
    let extra = b.extra.clone();
    a.merge(b);
    if a.exhaustive_part.is_none() {
        a.exhaustive_part = ex;
    }
    for (k, v) in extra {
        a.extra.insert(k, v);
    }
}

pub struct Report {
    pub id: String,
    pub rule: String,
    pub assumptions: Vec<String>,
    /// minimal fraction of evaluations that must be non-trivial (generator-health gate)
    pub min_nontrivial_frac: f64,
    pub stats: Stats,
    pub exhaustive: bool,
}

/// Write evidence, print verdict lines, return process exit code.
pub fn finish(ctx: &Ctx, rep: Report, known: &[Known], wall_s: f64) -> i32 {
    let st = &rep.stats;
    let nontriv = st.nontrivial_hashes.len() as u64;
    let mut code = 0;
    let mut violations = 0;
    if let Some((case, key, msg)) = &st.violation {
        violations = 1;
        let body = json!({"property": rep.id, "key": key, "message": msg, "case": case});
        let txt = serde_json::to_string_pretty(&body).unwrap();
        let h = fnv64(serde_json::to_string(case).unwrap().as_bytes());
        let dir = format!("{}/replays", ctx.verif_dir);
        let _ = std::fs::create_dir_all(&dir);
        let path = format!("{}/{}-{:016x}.json", dir, rep.id, h);
        let _ = std::fs::write(&path, txt);
        println!("  oracle: {}", msg);
        println!("VIOLATION property={} replay={}", rep.id, path);
        code = 1;
    }
    for k in known.iter().filter(|k| k.property == rep.id) {
        if st.excluded.get(&k.key).copied().unwrap_or(0) > 0 {
            println!("KNOWN-FINDING: property={} {} [{}; reproduced {} times, excluded from the search]",
                     rep.id, k.what, k.key, st.excluded[&k.key]);
        }
    }
    let frac = if st.evaluations > 0 { nontriv as f64 / st.evaluations as f64 } else { 0.0 };
    let mut coverage = json!({
        "evaluations": st.evaluations,
        "distinct_nontrivial": nontriv,
        "rule": rep.rule,
        "samples": st.samples,
        "class_histogram": st.classes,
        "trivial_by_reason": st.trivial,
        "excluded_known_findings": st.excluded,
        "nontrivial_fraction": frac,
        "exhaustive": rep.exhaustive,
    });
    if let Some(e) = &st.exhaustive_part {
        coverage["exhaustive_part"] = e.clone();
    }
    for (k, v) in &st.extra {
        coverage[k] = v.clone();
    }
    coverage["observed_maxima"] = json!(st.maxima);
    coverage["passing_cases_by_bound_ratio"] = json!(st.tails);
    coverage["passing_case_closest_to_bound"] = json!(st.argmax.iter().map(|(k, v)| (k.clone(), v.1.clone())).collect::<BTreeMap<_, _>>());
    let ev = json!({
        "property_id": rep.id,
        "tier": ctx.tier.name(),
        "seed": ctx.seed,
        "level": "exploration",
        "coverage": coverage,
        "assumptions": rep.assumptions,
        "wall_s": wall_s,
        "violations": violations,
    });
    let dir = format!("{}/evidence", ctx.verif_dir);
    let _ = std::fs::create_dir_all(&dir);
    let _ = std::fs::write(format!("{}/{}.json", dir, rep.id), serde_json::to_string_pretty(&ev).unwrap());
    println!(
        "{} tier={} seed={} evaluations={} distinct_nontrivial={} ({:.1}%) trivial={} excluded={} wall={:.1}s",
        rep.id, ctx.tier.name(), ctx.seed, st.evaluations, nontriv, 100.0 * frac,
        st.trivial.values().sum::<u64>(), st.excluded.values().sum::<u64>(), wall_s
    );
    if code == 0 && (frac < rep.min_nontrivial_frac || nontriv < 2) {
        println!("GENERATOR-HEALTH property={} non-trivial fraction {:.3} below required {:.3} (check is broken, not a violation)",
                 rep.id, frac, rep.min_nontrivial_frac);
        code = 2;
    }
    code
}

/// Committed regression replays (/verif/regress/<id>-*.json): shrunk cases of repaired defects and of
/// listed findings; evaluated first by every run.  Returns (stats, Some((path, key, msg)) on a violation).
pub fn run_regress<C: DeserializeOwned + Serialize>(
    ctx: &Ctx,
    id: &str,
    check: &(dyn Fn(&C) -> Outcome + Sync),
    known: &[Known],
) -> (Stats, Option<(String, String, String)>) {
    let mut st = Stats::default();
    let dir = format!("{}/regress", ctx.verif_dir);
    let mut files: Vec<String> = match std::fs::read_dir(&dir) {
        Ok(rd) => rd.filter_map(|e| e.ok()).map(|e| e.file_name().to_string_lossy().to_string()).filter(|n| n.starts_with(&format!("{}-", id)) && n.ends_with(".json")).collect(),
        Err(_) => vec![],
    };
    files.sort();
    let mut n = 0u64;
    for f in files {
        let path = format!("{}/{}", dir, f);
        let txt = match std::fs::read_to_string(&path) {
            Ok(t) => t,
            Err(_) => continue,
        };
        let v: Value = match serde_json::from_str(&txt) {
            Ok(v) => v,
            Err(_) => continue,
        };
        let cv = if v.get("case").is_some() { v["case"].clone() } else { v };
        let case: C = match serde_json::from_value(cv) {
            Ok(c) => c,
            Err(e) => {
                eprintln!("regression replay {} does not deserialise: {}", path, e);
                continue;
            }
        };
        n += 1;
        let out = eval(check, &case);
        if st.record(&case, &out, known) {
            if let Outcome::Violation { key, msg } = out {
                st.extra.insert("regression_replays".into(), json!(n));
                return (st, Some((path, key, msg)));
            }
        }
    }
    st.extra.insert("regression_replays".into(), json!(n));
    (st, None)
}

/// Replay one saved case through the oracle (no generator library involved).
pub fn replay<C: DeserializeOwned + Serialize>(
    id: &str,
    path: &str,
    check: &(dyn Fn(&C) -> Outcome + Sync),
    known: &[Known],
) -> i32 {
    let txt = match std::fs::read_to_string(path) {
        Ok(t) => t,
        Err(e) => {
            eprintln!("cannot read {}: {}", path, e);
            return 2;
        }
    };
    let v: Value = serde_json::from_str(&txt).expect("replay file is not JSON");
    let cv = if v.get("case").is_some() { v["case"].clone() } else { v };
    let case: C = match serde_json::from_value(cv) {
        Ok(c) => c,
        Err(e) => {
            eprintln!("replay file does not hold a {} case: {}", id, e);
            return 2;
        }
    };
    match eval(check, &case) {
        Outcome::Pass { class, summary, .. } => {
            println!("replay {}: PASS class={} observed={}", id, class, summary);
            0
        }
        Outcome::Trivial(w) => {
            println!("replay {}: TRIVIAL ({})", id, w);
            0
        }
        Outcome::Violation { key, msg } => {
            println!("  oracle: {}", msg);
            if !key.is_empty() && known.iter().any(|k| k.key == key) {
                println!("KNOWN-FINDING: property={} {}", id, key);
                0
            } else {
                println!("VIOLATION property={} replay={}", id, path);
                1
            }
        }
    }
}
