//! C14 — Implicit methods stay stable and cheap on stiff problems.

use crate::engine::*;
use crate::instr::*;
use crate::problems::{fr, Meth};
use crate::run::*;
use crate::stiff::*;
use crate::util::*;
use ivp::prelude::{Solution, Status};
use proptest::prelude::*;
use serde::{Deserialize, Serialize};
use serde_json::json;

#[derive(Serialize, Deserialize, Clone, Debug)]
pub struct Case {
    pub spec: StiffSpec,
    /// log10 of the stiffness ratio (2..10; mixed basis <= 6)
    pub lk: f64,
    pub x0: f64,
    pub back: bool,
    pub t_len: f64,
    pub method: Meth,
    pub rtol: f64,
    pub atol_rel: f64,
    pub analytic_jac: bool,
    /// linear problems: the same run started at x0 = sign * 10^|shift| (far from the origin the transient cannot be followed
    /// in time, but the run must still succeed at a comparable cost)
    #[serde(default)]
    pub shift: Option<f64>,
}

fn run_one(c: &Case, p: &StiffProb, xend: f64, rtol: f64, atol: f64) -> Result<Solution, String> {
    let none: Vec<EvSpec> = vec![];
    let mut instr = Instr::new(p, &none);
    instr.dir = p.dir;
    instr.use_jac = c.analytic_jac;
    instr.budget = 5_000_000;
    // dense output on: the stored steps are the record of what was really integrated (see short_of_xend)
    let mut o = RunOpts::basic(c.method, rtol, atol);
    o.dense = true;
    match solve(&instr, p.x0, xend, &p.y0(), &o) {
        RunResult::Ok(s) => Ok(s),
        other => Err(other.describe()),
    }
}

/// "reach xend with Success": the last sample of a successful run is xend (32 ulp: the solvers' step resolution)
fn short_of_xend(s: &Solution, x0: f64, xend: f64) -> Option<String> {
    let tl = *s.t.last()?;
    if s.status == Status::Success && (tl - xend).abs() > 8.0 * tau(x0, xend, tl) {
        return Some(format!("Success reported but the last sample is {:e}, not xend = {:e} ({} accepted steps)", tl, xend, s.naccpt));
    }
    // every solver reports xend itself on its landing step; a stepper that treats a shortened retry step as the landing
    // step would label that step's state xend -- the steps stored for the dense output then end short of it
    if s.status == Status::Success && s.naccpt > 0 {
        if let Some((_, b)) = s.sol_span() {
            if (b - xend).abs() > 8.0 * tau(x0, xend, xend) {
                return Some(format!("Success reported with the last sample at xend = {:e}, but the stored steps end at {:e}: the interval was not covered ({} accepted steps)", xend, b, s.naccpt));
            }
        }
    }
    None
}

pub fn check(c: &Case) -> Outcome {
    let d = if c.back { -1.0 } else { 1.0 };
    let name = c.method.name();
    let atol = c.rtol * c.atol_rel;
    match &c.spec {
        StiffSpec::Tri { .. } | StiffSpec::Mixed { .. } => {
            let kappa = 10f64.powf(c.lk);
            // a time is only known to an ulp: the transient e^{-kappa t} can only be followed to the
            // tolerance if kappa*ulp(t) is well below it; otherwise start at 0
            let x0 = if 8.0 * kappa * ulp(c.x0.abs() + c.t_len) > 0.01 * c.rtol { 0.0 } else { c.x0 };
            let c = &Case { x0, ..c.clone() };
            let p = StiffProb::new(&c.spec, kappa, c.x0, d);
            let xend = c.x0 + d * c.t_len;
            let s = match run_one(c, &p, xend, c.rtol, atol) {
                Ok(s) => s,
                Err(e) => return Outcome::viol(format!("{}: stiff linear problem (kappa=1e{:.1}): {}", name, c.lk, e)),
            };
            if s.status != Status::Success {
                return Outcome::viol(format!("{}: stiff linear problem with kappa=1e{:.1}, T={:.2}, rtol={:e} ended with {} after {} steps", name, c.lk, c.t_len, c.rtol, status_name(s.status), s.nstep));
            }
            if let Some(m) = short_of_xend(&s, c.x0, xend) {
                return Outcome::viol(format!("{}: stiff linear problem (kappa=1e{:.1}): {}", name, c.lk, m));
            }
            // accuracy
            let mut emax: f64 = 0.0;
            let mut ymax: f64 = 0.0;
            for (t, y) in s.t.iter().zip(&s.y) {
                let ex = p.exact(*t).unwrap();
                emax = emax.max(max_abs_diff(y, &ex));
                ymax = ymax.max(inf_norm(&ex));
            }
            let nacc = s.naccpt.max(1) as f64;
            let tolscale = atol + c.rtol * ymax;
            // rounding in the right-hand side is amplified by the stiffness in a mixed basis
            let floor = 64.0 * f64::EPSILON * (1.0 + ymax) * nacc.sqrt() * if matches!(c.spec, StiffSpec::Mixed { .. }) { kappa.sqrt().max(1.0) } else { 1.0 };
            // a sample time is only known to an ulp: during the initial transient the exact solution
            // moves by kappa*|y|*ulp(t) per ulp of time
            let floor = floor + 8.0 * ulp(c.x0.abs().max(xend.abs())) * kappa * ymax * p.conds;
            let bound = crate::props::c01::C_BOUND * p.conds * nacc * tolscale + floor;
            if !(emax <= bound) {
                return Outcome::viol(format!("{}: error {:e} on a stiff linear problem (kappa=1e{:.1}) exceeds C*cond*naccpt*tolscale + floor = {:e} (naccpt {}, rtol {:e})", name, emax, c.lk, bound, s.naccpt, c.rtol));
            }
            // cost independent of the stiffness ratio: same problem at kappa = 1e2
            let p2 = StiffProb::new(&c.spec, 100.0, c.x0, d);
            let s2 = match run_one(c, &p2, xend, c.rtol, atol) {
                Ok(s) => s,
                Err(e) => return Outcome::triv(format!("reference-kappa-run:{}", e.chars().take(30).collect::<String>())),
            };
            if s2.status != Status::Success {
                return Outcome::triv("reference-kappa-run-nonsuccess");
            }
            // the excited fast transient is resolved with steps growing geometrically from ~1/kappa: an additive
            // 12 steps per decade of stiffness (observed at 1.6e6 cases: 319 steps at 1e10 vs 96 at 1e2)
            let nlim = 3.0 * s2.naccpt as f64 + 30.0 + 12.0 * (c.lk - 2.0).max(0.0);
            if s.naccpt as f64 > nlim {
                return Outcome::viol(format!("{}: accepted steps grow with the stiffness ratio: {} at kappa=1e{:.1} vs {} at kappa=1e2 (rtol {:e}, analytic_jac={})", name, s.naccpt, c.lk, s2.naccpt, c.rtol, c.analytic_jac));
            }
            if s.nfev > 4 * s2.nfev + 200 {
                return Outcome::viol(format!("{}: right-hand-side evaluations grow with the stiffness ratio: {} at kappa=1e{:.1} vs {} at kappa=1e2", name, s.nfev, c.lk, s2.nfev));
            }
            let mut shifted = 0;
            // Far from the origin no step can be shorter than about 10 ulps of x0.  The transient of an initial state off the
            // slow manifold is then only affordable if a first-order step of that length meets the tolerance:
            // (10 eps |x0| kappa)^2 well below rtol; otherwise StepSizeTooSmall is the honest answer and nothing is asked.
            let resolvable = |x0s: f64| (10.0 * f64::EPSILON * x0s.abs() * kappa).powi(2) <= 0.1 * c.rtol;
            if let Some(e) = c.shift.filter(|e| resolvable(10f64.powf(e.abs()))) {
                let x0s = e.signum() * 10f64.powf(e.abs());
                let ps = StiffProb::new(&c.spec, kappa, x0s, d);
                let xends = x0s + d * c.t_len;
                let cs = &Case { x0: x0s, ..c.clone() };
                let ss = match run_one(cs, &ps, xends, c.rtol, atol) {
                    Ok(s) => s,
                    Err(e) => return Outcome::viol(format!("{}: stiff linear problem (kappa=1e{:.1}) started at x0={:e}: {}", name, c.lk, x0s, e)),
                };
                if ss.status != Status::Success {
                    return Outcome::viol(format!("{}: stiff linear problem with kappa=1e{:.1}, T={:.2}, rtol={:e} succeeds from x0={} ({} steps) but started at x0={:e} it ends with {} after {} steps", name, c.lk, c.t_len, c.rtol, c.x0, s.naccpt, x0s, status_name(ss.status), ss.nstep));
                }
                if let Some(m) = short_of_xend(&ss, x0s, xends) {
                    return Outcome::viol(format!("{}: stiff linear problem (kappa=1e{:.1}) started at x0={:e}: {}", name, c.lk, x0s, m));
                }
                if ss.naccpt as f64 > 3.0 * s.naccpt as f64 + 50.0 {
                    return Outcome::viol(format!("{}: stiff linear problem (kappa=1e{:.1}): {} accepted steps from x0={} but {} from x0={:e}", name, c.lk, s.naccpt, c.x0, ss.naccpt, x0s));
                }
                shifted = 1;
            }
            Outcome::pass(
                format!("{}:{}{}", name, if matches!(c.spec, StiffSpec::Tri { .. }) { "tri" } else { "mixed" }, if shifted == 1 { ":shifted" } else { "" }),
                kappa * c.t_len >= 1e4,
                json!({"err_over_bound": emax / bound, "steps_ratio": s.naccpt as f64 / nlim, "nfev_ratio": s.nfev as f64 / (4.0 * s2.nfev as f64 + 200.0), "lk": c.lk}),
            )
        }
        StiffSpec::Chain { .. } | StiffSpec::Robertson => {
            let kappa = 10f64.powf(c.lk);
            let p = StiffProb::new(&c.spec, kappa, c.x0, 1.0);
            // Robertson: T = 10^U[0.4, 8.8] (the classic long-time test; beyond 1e9 the loosest tolerances generated here
            // let y2 go negative, which is the problem's own instability)
            let t_len = if matches!(c.spec, StiffSpec::Robertson) { 10f64.powf(c.t_len * 0.73) } else { c.t_len };
            // Robertson's second component is ~3e-5: an absolute tolerance above that would not
            // resolve it at all (the textbook setting is atol <= 1e-8)
            let atol = if matches!(c.spec, StiffSpec::Robertson) { (atol * 1e-5).min(1e-8) } else { atol };
            let s = match run_one(c, &p, c.x0 + t_len, c.rtol, atol) {
                Ok(s) => s,
                Err(e) => return Outcome::viol(format!("{}: {:?}: {}", name, c.spec, e)),
            };
            if s.status != Status::Success {
                return Outcome::viol(format!("{}: {} (T={:e}, rtol={:e}) ended with {} after {} steps", name, if matches!(c.spec, StiffSpec::Robertson) { "Robertson" } else { "kinetics chain" }, t_len, c.rtol, status_name(s.status), s.nstep));
            }
            if let Some(m) = short_of_xend(&s, c.x0, c.x0 + t_len) {
                return Outcome::viol(format!("{}: {}: {}", name, if matches!(c.spec, StiffSpec::Robertson) { "Robertson" } else { "kinetics chain" }, m));
            }
            let w = p.invariant().unwrap();
            let y0 = p.y0();
            let i0: f64 = w.iter().zip(&y0).map(|(a, b)| a * b).sum();
            let mut drift: f64 = 0.0;
            let mut ymax: f64 = 0.0;
            for y in &s.y {
                let i: f64 = w.iter().zip(y).map(|(a, b)| a * b).sum();
                drift = drift.max((i - i0).abs());
                ymax = ymax.max(inf_norm(y));
            }
            let wn = (w.len() as f64).sqrt();
            // the right-hand side conserves w.f = 0 only up to its own rounding (flux magnitude * eps);
            // a finite-difference Jacobian divides that noise by the increment 1.5e-8
            let flux = if matches!(c.spec, StiffSpec::Robertson) { 1.0 } else { kappa };
            let noise = 64.0 * f64::EPSILON * flux * ymax.max(1.0) * t_len * if c.analytic_jac { 1.0 } else { 1e3 };
            let lim = 1e-11 * wn * ymax.max(1.0) * (s.naccpt.max(1) as f64).sqrt() + noise;
            if drift > lim {
                return Outcome::viol(format!("{}: linear invariant sum(y) drifts by {:e} > {:e} ({} steps, analytic_jac={})", name, drift, lim, s.naccpt, c.analytic_jac));
            }
            if matches!(c.spec, StiffSpec::Robertson) && s.naccpt > 3000 {
                return Outcome::viol(format!("{}: Robertson to T={:e} needed {} accepted steps", name, t_len, s.naccpt));
            }
            Outcome::pass(format!("{}:{}", name, if matches!(c.spec, StiffSpec::Robertson) { "robertson" } else { "chain" }), true, json!({"drift_over_limit": drift / lim, "naccpt": s.naccpt}))
        }
        StiffSpec::VdP { mu } if c.back => {
            // relaxation oscillation through its fast transitions (T up to 2.2 mu, more than one period): the final
            // state is ill-conditioned there, so only Success, landing on xend and a bounded step count are asserted
            let p = StiffProb::new(&c.spec, 1.0, c.x0, 1.0);
            let t_len = mu * (0.2 + 2.0 * (c.t_len / 12.0).clamp(0.0, 1.0));
            let s = match run_one(c, &p, c.x0 + t_len, c.rtol, atol) {
                Ok(s) => s,
                Err(e) => return Outcome::viol(format!("{}: Van der Pol mu={} on [0,{:.1}]: {}", name, mu, t_len, e)),
            };
            if s.status != Status::Success {
                return Outcome::viol(format!("{}: Van der Pol mu={} on [0,{:.1}] (relaxation oscillation, rtol {:e}) ended with {} after {} steps", name, mu, t_len, c.rtol, status_name(s.status), s.nstep));
            }
            if let Some(m) = short_of_xend(&s, c.x0, c.x0 + t_len) {
                return Outcome::viol(format!("{}: Van der Pol mu={}: {}", name, mu, m));
            }
            if s.naccpt > 20000 {
                return Outcome::viol(format!("{}: Van der Pol mu={} on [0,{:.1}]: {} accepted steps", name, mu, t_len, s.naccpt));
            }
            Outcome::pass("vdp-cycle", true, json!({"naccpt_cycle": s.naccpt, "nrejct": s.nrejct}))
        }
        StiffSpec::VdP { mu } => {
            // slow-manifold phase only (well conditioned): T <= 0.5*mu
            let p = StiffProb::new(&c.spec, 1.0, c.x0, 1.0);
            let t_len = 0.5 * mu * (c.t_len / 12.0).clamp(0.1, 1.0);
            let mut c_r = c.clone();
            c_r.method = Meth::RADAU;
            let mut c_b = c.clone();
            c_b.method = Meth::BDF;
            let (sr, sb) = match (run_one(&c_r, &p, c.x0 + t_len, c.rtol, atol), run_one(&c_b, &p, c.x0 + t_len, c.rtol, atol)) {
                (Ok(a), Ok(b)) => (a, b),
                (a, b) => return Outcome::viol(format!("Van der Pol mu={}: Radau {:?} / BDF {:?}", mu, a.map(|s| s.status), b.map(|s| s.status))),
            };
            if sr.status != Status::Success || sb.status != Status::Success {
                return Outcome::viol(format!("Van der Pol mu={} on [0,{:.1}] (slow phase): Radau {} / BDF {}", mu, t_len, status_name(sr.status), status_name(sb.status)));
            }
            for (s, nm) in [(&sr, "RADAU"), (&sb, "BDF")] {
                if let Some(m) = short_of_xend(s, c.x0, c.x0 + t_len) {
                    return Outcome::viol(format!("{}: Van der Pol mu={}: {}", nm, mu, m));
                }
            }
            let (yr, yb) = (sr.y.last().unwrap(), sb.y.last().unwrap());
            let tolscale = atol + c.rtol * 2.0;
            let bound = 200.0 * ((sr.naccpt + sb.naccpt) as f64) * tolscale;
            if max_abs_diff(yr, yb) > bound {
                return Outcome::viol(format!("Van der Pol mu={}: Radau and BDF disagree at T={:.2} by {:e} > {:e}", mu, t_len, max_abs_diff(yr, yb), bound));
            }
            if sr.naccpt > 2000 || sb.naccpt > 5000 {
                return Outcome::viol(format!("Van der Pol mu={} slow phase: {} (Radau) / {} (BDF) accepted steps", mu, sr.naccpt, sb.naccpt));
            }
            Outcome::pass("vdp", *mu * t_len >= 1e2, json!({"vdp_diff_over_bound": max_abs_diff(yr, yb) / bound, "naccpt_radau": sr.naccpt, "naccpt_bdf": sb.naccpt}))
        }
    }
}

fn sig() -> impl Strategy<Value = Sig> {
    (fr(0.0, 1.0), fr(0.2, 2.0), fr(0.0, 6.28), fr(-1.0, 1.0)).prop_map(|(a, w, p, c)| Sig { a, w, p, c })
}

pub fn strategy() -> BoxedStrategy<Case> {
    let tri = (1usize..=4, 0usize..=4).prop_flat_map(|(nf, ns)| {
        (
            proptest::collection::vec(fr(0.0, 1.0), nf..=nf),
            proptest::collection::vec(sig(), nf..=nf),
            proptest::collection::vec(fr(-1.0, 1.0), nf..=nf),
            proptest::collection::vec(fr(-0.8, 0.1), ns..=ns),
            proptest::collection::vec(proptest::collection::vec(fr(-1.0, 1.0), nf..=nf), ns..=ns),
            proptest::collection::vec(sig(), ns..=ns),
        )
            .prop_map(|(mut u, g, d0, a, b, h)| {
                u[0] = 1.0;
                StiffSpec::Tri { u, g, d0, a, b, h }
            })
    });
    let mixed = (1usize..=6).prop_flat_map(|n| {
        (
            proptest::collection::vec(fr(0.0, 1.0), n..=n),
            proptest::collection::vec(sig(), n..=n),
            proptest::collection::vec(fr(-1.0, 1.0), n..=n),
            proptest::collection::vec((0usize..8, 0usize..8, fr(-3.1, 3.1)), 0..6),
            proptest::collection::vec(fr(0.5, 2.0), n..=n),
        )
            .prop_map(|(mut u, g, d0, rot, scale)| {
                u[0] = 1.0;
                StiffSpec::Mixed { u, g, d0, rot, scale }
            })
    });
    let chain = (1usize..=6).prop_flat_map(|m| {
        (proptest::collection::vec(fr(0.0, 1.0), m..=m), proptest::collection::vec(fr(0.0, 1.0), m..=m), proptest::collection::vec(fr(0.0, 1.0), m + 1..=m + 1))
            .prop_map(|(mut u, back, y0)| {
                u[0] = 1.0;
                StiffSpec::Chain { u, back, y0 }
            })
    });
    let spec = prop_oneof![
        5 => tri.prop_map(|s| (s, 10.0)),
        3 => mixed.prop_map(|s| (s, 6.0)),
        2 => chain.prop_map(|s| (s, 8.0)),
        1 => Just((StiffSpec::Robertson, 2.0)),
        1 => fr(1.0, 3.0).prop_map(|e| (StiffSpec::VdP { mu: 10f64.powf(e) }, 2.0)),
    ];
    (spec, fr(0.0, 1.0), fr(-10.0, 10.0), any::<bool>(), fr(0.5, 12.0), prop_oneof![Just(Meth::RADAU), Just(Meth::BDF)], fr(3.0, 9.0), fr(-3.0, 0.0), any::<bool>(), proptest::option::weighted(0.2, (fr(2.0, 5.0), any::<bool>()).prop_map(|(e, neg)| if neg { -e } else { e })))
        .prop_map(|((spec, lkmax), lf, x0, back, t_len, method, re, ar, analytic_jac, shift)| {
            let lk = 2.0 + lf * (lkmax - 2.0);
            let mixed = matches!(spec, StiffSpec::Mixed { .. });
            // mixed basis: rtol >= 1e-6; BDF: rtol >= 1e-8
            let re = if mixed { 3.0 + (re - 3.0) * 0.5 } else if method == Meth::BDF { 3.0 + (re - 3.0) * 5.0 / 6.0 } else { re };
            Case { spec, lk, x0, back, t_len, method, rtol: 10f64.powf(-re), atol_rel: 10f64.powf(ar), analytic_jac, shift }
        })
        .boxed()
}

pub fn run(ctx: &Ctx, known: &[Known]) -> Report {
    let cases = match ctx.tier {
        Tier::Quick => 60_000,
        Tier::Thorough => 2_000_000,
    };
    let stats = run_generated(ctx, "C14", "gen", &strategy, &check, cases, known);
    Report {
        id: "C14".into(),
        rule: "cases = stiff linear problems with closed-form solutions in two families (triangular coupling: fast block with rates kappa^u_j, one equal to kappa, driving a slow block, kappa = 1e2..1e10; fully mixed basis K = S diag(kappa^u) S^-1, kappa <= 1e6, rtol >= 1e-6), n = 1..8, initial transients of O(1), both directions (reflected so that the problem stays stable), T = 0.5..12; linear kinetics chains with total-mass conservation (kappa to 1e8); Robertson to T = 10^U[0.4,8.8]; Van der Pol (mu = 10..1000) on its slow phase (Radau vs BDF) or through more than one relaxation cycle (Success, landing, step count); Radau and BDF, rtol 1e-3..1e-9 (BDF 1e-8), analytic or finite-difference Jacobian. Oracle: Success with the last sample at xend (32 ulp); error vs exact <= 100*cond(S)*naccpt*tolscale + floor; the same problem at kappa and at 1e2: naccpt(kappa) <= 3 naccpt(1e2) + 30 + 12 per decade of kappa above 1e2 (the excited transient is resolved with geometrically growing steps), nfev(kappa) <= 4 nfev(1e2) + 200; one linear case in five is repeated from x0 = +-10^U[2,5] where the initial transient is still affordable with steps of 10 ulps of x0, (10 eps |x0| kappa)^2 <= 0.1 rtol (Success, landing, at most 3x + 50 steps); linear invariants to 1e-11*|w||y|*sqrt(steps) + 64 eps * flux * T (x1000 with the finite-difference Jacobian, which divides the right-hand side's rounding noise by its increment); Radau and BDF agree on Van der Pol. Non-trivial = kappa*T >= 1e4 (an explicit method would need thousands of steps), or a nonlinear problem. Distinct = distinct canonical JSON.".into(),
        assumptions: vec![
            "fully mixed basis restricted to kappa <= 1e6 and rtol >= 1e-6: beyond that the rounding noise kappa*eps of the right-hand side itself prevents the slow components from meeting the tolerance (conditioning of the evaluation, not a solver defect)".into(),
            "Van der Pol only on the slow manifold phase T <= 0.5 mu (contractive, so the two methods must agree to tolerance)".into(),
        ],
        min_nontrivial_frac: 0.4,
        stats,
        exhaustive: false,
    }
}
