//! C16 — LU factorisation and triangular solves, real and complex.

use crate::engine::*;
use ivp::error::{Error, LinearAlgebraError};
use ivp::matrix::{lin_solve, lin_solve_complex, lu_decomp, lu_decomp_complex, Matrix};
use proptest::prelude::*;
use serde::{Deserialize, Serialize};
use serde_json::json;
use std::panic::{catch_unwind, AssertUnwindSafe};

const EPS: f64 = f64::EPSILON;

#[derive(Serialize, Deserialize, Clone, Debug, PartialEq)]
pub enum Mis {
    None,
    /// matrix is rows x cols with rows != cols
    NonSquare(usize, usize),
    /// pivot slice of this (wrong) length
    PivotLen(usize),
    /// complex factorisation: square real part (n x n) but an imaginary part of this other shape
    ImagShape(usize, usize),
}

#[derive(Serialize, Deserialize, Clone, Debug)]
pub struct Case {
    pub n: usize,
    pub kind: String,
    pub complex: bool,
    pub ar: Vec<f64>,
    pub ai: Vec<f64>,
    pub br: Vec<f64>,
    pub bi: Vec<f64>,
    pub mis: Mis,
    /// structurally singular by construction (zero row / zero column)
    pub struct_singular: bool,
}

// ---- double-double accumulation -------------------------------------------------------------
#[derive(Clone, Copy)]
struct DD(f64, f64);
fn two_sum(a: f64, b: f64) -> (f64, f64) {
    let s = a + b;
    let bb = s - a;
    (s, (a - (s - bb)) + (b - bb))
}
impl DD {
    fn add_prod(self, a: f64, b: f64) -> DD {
        let p = a * b;
        let e = a.mul_add(b, -p);
        let (s, e1) = two_sum(self.0, p);
        let lo = self.1 + e1 + e;
        let (h, l) = two_sum(s, lo);
        DD(h, l)
    }
    fn add(self, a: f64) -> DD {
        let (s, e1) = two_sum(self.0, a);
        let (h, l) = two_sum(s, self.1 + e1);
        DD(h, l)
    }
    fn val(self) -> f64 {
        self.0 + self.1
    }
}

// ---- reference GEPP (real) ------------------------------------------------------------------
struct RefLu {
    singular: bool,
    sum_u: f64,
    max_u: f64,
    min_piv: f64,
    swaps: usize,
}

fn ref_gepp(n: usize, a0: &[f64]) -> RefLu {
    let mut a = a0.to_vec();
    let mut swaps = 0;
    let mut singular = false;
    for k in 0..n {
        let mut m = k;
        let mut best = a[k * n + k].abs();
        for i in k + 1..n {
            if a[i * n + k].abs() > best {
                best = a[i * n + k].abs();
                m = i;
            }
        }
        if best == 0.0 {
            singular = true;
            break;
        }
        if m != k {
            swaps += 1;
            for j in 0..n {
                a.swap(m * n + j, k * n + j);
            }
        }
        let p = a[k * n + k];
        for i in k + 1..n {
            let l = a[i * n + k] / p;
            a[i * n + k] = 0.0;
            if l != 0.0 {
                for j in k + 1..n {
                    a[i * n + j] -= l * a[k * n + j];
                }
            }
        }
    }
    let mut sum_u = 0.0;
    let mut max_u: f64 = 0.0;
    let mut min_piv = f64::INFINITY;
    if !singular {
        for i in 0..n {
            min_piv = min_piv.min(a[i * n + i].abs());
            for j in i..n {
                sum_u += a[i * n + j].abs();
                max_u = max_u.max(a[i * n + j].abs());
            }
        }
    }
    RefLu { singular, sum_u, max_u, min_piv, swaps }
}

fn ref_gepp_complex(n: usize, ar0: &[f64], ai0: &[f64]) -> RefLu {
    let mut ar = ar0.to_vec();
    let mut ai = ai0.to_vec();
    let mut swaps = 0;
    let mut singular = false;
    for k in 0..n {
        let mut m = k;
        let mut best = ar[k * n + k].abs() + ai[k * n + k].abs();
        for i in k + 1..n {
            let v = ar[i * n + k].abs() + ai[i * n + k].abs();
            if v > best {
                best = v;
                m = i;
            }
        }
        if best == 0.0 {
            singular = true;
            break;
        }
        if m != k {
            swaps += 1;
            for j in 0..n {
                ar.swap(m * n + j, k * n + j);
                ai.swap(m * n + j, k * n + j);
            }
        }
        let (pr, pi) = (ar[k * n + k], ai[k * n + k]);
        let den = pr * pr + pi * pi;
        for i in k + 1..n {
            let (xr, xi) = (ar[i * n + k], ai[i * n + k]);
            let lr = (xr * pr + xi * pi) / den;
            let li = (xi * pr - xr * pi) / den;
            ar[i * n + k] = 0.0;
            ai[i * n + k] = 0.0;
            for j in k + 1..n {
                let (ur, ui) = (ar[k * n + j], ai[k * n + j]);
                ar[i * n + j] -= lr * ur - li * ui;
                ai[i * n + j] -= lr * ui + li * ur;
            }
        }
    }
    let mut sum_u = 0.0;
    let mut max_u: f64 = 0.0;
    let mut min_piv = f64::INFINITY;
    if !singular {
        for i in 0..n {
            min_piv = min_piv.min(ar[i * n + i].hypot(ai[i * n + i]));
            for j in i..n {
                let v = ar[i * n + j].hypot(ai[i * n + j]);
                sum_u += v;
                max_u = max_u.max(v);
            }
        }
    }
    RefLu { singular, sum_u, max_u, min_piv, swaps }
}

/// n * max|A| * max|A^-1| from a Gauss-Jordan inversion with partial pivoting (infinite when a pivot
/// column vanishes): how far, relative to |A|, the matrix is from a singular one.
fn ref_cond(n: usize, ar0: &[f64], ai0: Option<&[f64]>) -> f64 {
    let w = 2 * n;
    let mut ar = vec![0.0; n * w];
    let mut ai = vec![0.0; n * w];
    let mut amax: f64 = 0.0;
    for i in 0..n {
        for j in 0..n {
            ar[i * w + j] = ar0[i * n + j];
            ai[i * w + j] = ai0.map_or(0.0, |v| v[i * n + j]);
            amax = amax.max(ar[i * w + j].hypot(ai[i * w + j]));
        }
        ar[i * w + n + i] = 1.0;
    }
    for k in 0..n {
        let mut m = k;
        let mut best = ar[k * w + k].hypot(ai[k * w + k]);
        for i in k + 1..n {
            let v = ar[i * w + k].hypot(ai[i * w + k]);
            if v > best {
                best = v;
                m = i;
            }
        }
        if best == 0.0 || !best.is_finite() {
            return f64::INFINITY;
        }
        if m != k {
            for j in 0..w {
                ar.swap(m * w + j, k * w + j);
                ai.swap(m * w + j, k * w + j);
            }
        }
        let (pr, pi) = (ar[k * w + k], ai[k * w + k]);
        // scaled complex division by the pivot
        let s = pr.abs().max(pi.abs());
        let (qr, qi) = (pr / s, pi / s);
        let den = (qr * qr + qi * qi) * s;
        for j in 0..w {
            let (xr, xi) = (ar[k * w + j], ai[k * w + j]);
            ar[k * w + j] = (xr * qr + xi * qi) / den;
            ai[k * w + j] = (xi * qr - xr * qi) / den;
        }
        for i in 0..n {
            if i == k {
                continue;
            }
            let (lr, li) = (ar[i * w + k], ai[i * w + k]);
            if lr == 0.0 && li == 0.0 {
                continue;
            }
            for j in 0..w {
                let (ur, ui) = (ar[k * w + j], ai[k * w + j]);
                ar[i * w + j] -= lr * ur - li * ui;
                ai[i * w + j] -= lr * ui + li * ur;
            }
        }
    }
    let mut imax: f64 = 0.0;
    for i in 0..n {
        for j in 0..n {
            imax = imax.max(ar[i * w + n + j].hypot(ai[i * w + n + j]));
        }
    }
    let c = n as f64 * amax * imax;
    if c.is_nan() { f64::INFINITY } else { c }
}

// ---- exact rational elimination for small integer matrices ----------------------------------
fn gcd(a: i128, b: i128) -> i128 {
    let (mut a, mut b) = (a.abs(), b.abs());
    while b != 0 {
        let t = a % b;
        a = b;
        b = t;
    }
    a.max(1)
}
#[derive(Clone, Copy)]
struct Q(i128, i128);
impl Q {
    fn new(n: i128, d: i128) -> Q {
        let g = gcd(n, d);
        let (mut n, mut d) = (n / g, d / g);
        if d < 0 {
            n = -n;
            d = -d;
        }
        Q(n, d)
    }
    fn sub(self, o: Q) -> Q {
        Q::new(self.0 * o.1 - o.0 * self.1, self.1 * o.1)
    }
    fn mul(self, o: Q) -> Q {
        Q::new(self.0 * o.0, self.1 * o.1)
    }
    fn div(self, o: Q) -> Q {
        Q::new(self.0 * o.1, self.1 * o.0)
    }
    fn is_zero(self) -> bool {
        self.0 == 0
    }
    fn abs_gt(self, o: Q) -> bool {
        self.0.abs() * o.1 > o.0.abs() * self.1
    }
    fn dyadic(self) -> bool {
        let d = self.1;
        d > 0 && (d & (d - 1)) == 0 && d <= (1 << 40) && self.0.abs() < (1 << 50)
    }
    fn pow2(self) -> bool {
        let n = self.0.abs();
        n > 0 && (n & (n - 1)) == 0 && self.dyadic()
    }
}

/// exact elimination with the same pivot rule.  Returns (singular, fp_exact): `fp_exact` means
/// every intermediate quantity of the floating-point algorithm is exactly representable, so the
/// floating-point run must meet exactly the same zero / non-zero pivots.
fn exact_elim(n: usize, a0: &[f64]) -> (bool, bool) {
    let mut a: Vec<Q> = a0.iter().map(|&v| Q::new(v as i128, 1)).collect();
    let mut exact = true;
    for k in 0..n {
        let mut m = k;
        for i in k + 1..n {
            if a[i * n + k].abs_gt(a[m * n + k]) {
                m = i;
            }
        }
        if a[m * n + k].is_zero() {
            return (true, exact);
        }
        if m != k {
            for j in 0..n {
                a.swap(m * n + j, k * n + j);
            }
        }
        let p = a[k * n + k];
        if !p.pow2() {
            exact = false;
        }
        for i in k + 1..n {
            let l = a[i * n + k].div(p);
            if !l.dyadic() {
                exact = false;
            }
            a[i * n + k] = Q::new(0, 1);
            for j in k + 1..n {
                a[i * n + j] = a[i * n + j].sub(l.mul(a[k * n + j]));
                if !a[i * n + j].dyadic() {
                    exact = false;
                }
            }
        }
    }
    (false, exact)
}

fn is_singular_err(e: &Error) -> bool {
    matches!(e, Error::LinearAlgebra(LinearAlgebraError::SingularMatrix))
}

pub fn check(c: &Case) -> Outcome {
    let n = c.n;
    // ---- shape / pivot-length mismatch
    match &c.mis {
        Mis::NonSquare(r, cc) => {
            let mut a = Matrix::zeros(*r, *cc);
            for i in 0..*r {
                for j in 0..*cc {
                    a[(i, j)] = 1.0 + (i * 3 + j) as f64;
                }
            }
            let mut ip = vec![0usize; *r];
            let res = if c.complex {
                let mut ai = Matrix::zeros(*r, *cc);
                lu_decomp_complex(&mut a, &mut ai, &mut ip)
            } else {
                lu_decomp(&mut a, &mut ip)
            };
            return match res {
                Err(Error::LinearAlgebra(LinearAlgebraError::NonSquareMatrix { .. })) => Outcome::pass("mismatch:nonsquare", true, json!({"rows": r, "cols": cc})),
                other => Outcome::viol(format!("{}x{} matrix: expected Err(NonSquareMatrix), got {:?}", r, cc, other)),
            };
        }
        Mis::PivotLen(l) => {
            let mut a = Matrix::from_vec(n, n, c.ar.clone());
            let mut ip = vec![0usize; *l];
            let res = if c.complex {
                let mut ai = Matrix::from_vec(n, n, c.ai.clone());
                lu_decomp_complex(&mut a, &mut ai, &mut ip)
            } else {
                lu_decomp(&mut a, &mut ip)
            };
            return match res {
                Err(Error::LinearAlgebra(LinearAlgebraError::PivotSizeMismatch { .. })) => Outcome::pass("mismatch:pivot", true, json!({"n": n, "ip_len": l})),
                other => Outcome::viol(format!("n={} pivot length {}: expected Err(PivotSizeMismatch), got {:?}", n, l, other)),
            };
        }
        Mis::ImagShape(r, cc) => {
            let mut a = Matrix::zeros(n, n);
            for i in 0..n {
                a[(i, i)] = 2.0 + i as f64;
            }
            let mut ai = Matrix::zeros(*r, *cc);
            let mut ip = vec![0usize; n];
            let res = std::panic::catch_unwind(std::panic::AssertUnwindSafe(|| lu_decomp_complex(&mut a, &mut ai, &mut ip)));
            return match res {
                Ok(Err(Error::LinearAlgebra(LinearAlgebraError::NonSquareMatrix { .. }))) => Outcome::pass("mismatch:imag-shape", true, json!({"n": n, "imag_rows": r, "imag_cols": cc})),
                Ok(other) => Outcome::viol(format!("real part {}x{}, imaginary part {}x{}: expected Err(NonSquareMatrix), got {:?}", n, n, r, cc, other)),
                Err(p) => Outcome::viol(format!("real part {}x{}, imaginary part {}x{}: expected Err(NonSquareMatrix), but the call panicked: {}", n, n, r, cc, crate::util::panic_msg(&p))),
            };
        }
        Mis::None => {}
    }

    let int_small = c.kind.starts_with("int") && !c.complex && n <= 4;
    let mut a = Matrix::from_vec(n, n, c.ar.clone());
    let mut ai = Matrix::from_vec(n, n, c.ai.clone());
    let mut ip = vec![0usize; n];
    let res = catch_unwind(AssertUnwindSafe(|| if c.complex { lu_decomp_complex(&mut a, &mut ai, &mut ip) } else { lu_decomp(&mut a, &mut ip) }));
    let res = match res {
        Ok(r) => r,
        Err(p) => return Outcome::viol(format!("factorisation panicked: {}", crate::util::panic_msg(&p))),
    };
    let rf = if c.complex { ref_gepp_complex(n, &c.ar, &c.ai) } else { ref_gepp(n, &c.ar) };

    // ---- (a) singularity
    if c.struct_singular {
        return match res {
            Err(e) if is_singular_err(&e) => Outcome::pass(format!("{}:singular-rejected", c.kind), n >= 2, json!({"n": n})),
            other => Outcome::viol(format!("structurally singular matrix (zero row/column) not rejected: {:?}", other.map(|_| "Ok"))),
        };
    }
    if int_small {
        let (sing, exact) = exact_elim(n, &c.ar);
        if !sing && res.is_err() {
            return Outcome::viol(format!("integer matrix with non-zero determinant rejected: {:?}", res));
        }
        if sing && exact {
            return match res {
                Err(e) if is_singular_err(&e) => Outcome::pass("int:singular-rejected", n >= 2, json!({"n": n})),
                other => Outcome::viol(format!("exactly singular integer matrix (zero pivot column, all arithmetic exact) not rejected: {:?}", other.map(|_| "Ok"))),
            };
        }
        if sing {
            // rounding may or may not reproduce the exact zero: nothing to assert
            return Outcome::triv("int-singular-inexact-arithmetic");
        }
    }
    if let Err(e) = &res {
        if is_singular_err(e) {
            if rf.singular {
                return Outcome::pass(format!("{}:singular-rejected", c.kind), false, json!({"n": n}));
            }
            // The library met an exact zero the reference did not.  Computed pivots of two correct
            // eliminations differ by O(n*eps*max|U|), so this is legitimate when the reference's
            // smallest pivot is at rounding level (rank-deficient-by-accident input, e.g. a sparse
            // pattern with two rows supported on one column) and impossible otherwise.
            // "Rounding level" is relative to the conditioning: a backward-stable elimination meets an exact zero
            // only if a matrix within c*n*eps*|A| of A is singular, i.e. only if cond(A) >~ 1/(c*n*eps).  (The smallest
            // reference pivot alone is not the measure: after a pivot of relative size 1e-8 the later pivots carry
            // errors of 1e8*eps.)
            let cond = ref_cond(n, &c.ar, if c.complex { Some(&c.ai) } else { None });
            if cond < 1e10 {
                return Outcome::viol(format!("nonsingular matrix rejected with SingularMatrix (n*max|A|*max|A^-1| = {:.3e}; reference pivots are all >= {:.3e} * max|U|)", cond, rf.min_piv / rf.max_u));
            }
            return Outcome::triv("numerically-singular-rejected");
        }
        return Outcome::viol(format!("unexpected error from factorisation: {:?}", e));
    }
    if rf.singular {
        // reference (different rounding) met an exact zero pivot column, library did not: legitimate
        return Outcome::triv("reference-singular-library-not");
    }

    // ---- (b) multipliers
    let mut max_l: f64 = 0.0;
    for i in 0..n {
        for j in 0..i {
            let v = if c.complex { a[(i, j)].hypot(ai[(i, j)]) } else { a[(i, j)].abs() };
            max_l = max_l.max(v);
        }
    }
    let lim = if c.complex { std::f64::consts::SQRT_2 * (1.0 + 8.0 * EPS) } else { 1.0 + 4.0 * EPS };
    if !(max_l <= lim) {
        return Outcome::viol(format!("stored multiplier of magnitude {} exceeds {} (row pivoting must keep |l| <= 1)", max_l, lim));
    }

    // ---- solve
    let a_before = a.clone();
    let ai_before = ai.clone();
    let ip_before = ip.clone();
    let mut xr = c.br.clone();
    let mut xi = c.bi.clone();
    let sres = catch_unwind(AssertUnwindSafe(|| {
        if c.complex {
            lin_solve_complex(&a, &ai, &mut xr, &mut xi, &ip)
        } else {
            lin_solve(&a, &mut xr, &ip)
        }
    }));
    if let Err(p) = sres {
        return Outcome::viol(format!("solve panicked: {}", crate::util::panic_msg(&p)));
    }
    // (bit comparison: the factors of a numerically singular matrix may contain NaN, and NaN != NaN)
    if !crate::util::bits_eq(&a.data, &a_before.data) || !crate::util::bits_eq(&ai.data, &ai_before.data) || ip != ip_before {
        return Outcome::viol("factor matrix or pivot vector modified by the solve".to_string());
    }
    if !xr.iter().all(|v| v.is_finite()) || (c.complex && !xi.iter().all(|v| v.is_finite())) {
        return Outcome::triv("non-finite-solution(overflow)");
    }

    // ---- (c) backward error, residual in double-double
    let mut rmax: f64 = 0.0;
    let mut xnorm: f64 = 0.0;
    let mut anorm: f64 = 0.0;
    for i in 0..n {
        let mut rr = DD(0.0, 0.0);
        let mut ri = DD(0.0, 0.0);
        let mut rowsum = 0.0;
        for j in 0..n {
            let (pr, pi) = (c.ar[i * n + j], if c.complex { c.ai[i * n + j] } else { 0.0 });
            rr = rr.add_prod(pr, xr[j]);
            if c.complex {
                rr = rr.add_prod(-pi, xi[j]);
                ri = ri.add_prod(pr, xi[j]);
                ri = ri.add_prod(pi, xr[j]);
            }
            rowsum += pr.hypot(pi);
        }
        rr = rr.add(-c.br[i]);
        if c.complex {
            ri = ri.add(-c.bi[i]);
        }
        rmax = rmax.max(rr.val().hypot(ri.val()));
        anorm = anorm.max(rowsum);
    }
    for j in 0..n {
        xnorm = xnorm.max(if c.complex { xr[j].hypot(xi[j]) } else { xr[j].abs() });
    }
    let cst = if c.complex { 16.0 } else { 4.0 };
    let bound = cst * (n as f64) * EPS * rf.sum_u * xnorm;
    let tiny = f64::MIN_POSITIVE * 1e4; // underflow floor
    if !(rmax <= bound + tiny) {
        return Outcome::viol(format!(
            "backward error too large: |Ax-b|_inf = {:.3e} > {}*n*eps*sum|U|*|x|_inf = {:.3e} (n={}, kind={}, complex={})",
            rmax, cst, bound, n, c.kind, c.complex
        ));
    }
    // ---- (d) the property's norm form, when there is no element growth
    let amax = c.ar.iter().zip(&c.ai).fold(0.0f64, |m, (r, i)| m.max(r.hypot(*i)));
    let growth = if amax > 0.0 { rf.max_u / amax } else { 1.0 };
    let ratio = if anorm * xnorm > 0.0 { rmax / ((n as f64) * EPS * anorm * xnorm) } else { 0.0 };
    if growth <= 4.0 && (c.kind == "iid" || c.kind.starts_with("int")) {
        let cd = if c.complex { 32.0 } else { 16.0 };
        if ratio > cd {
            return Outcome::viol(format!("|Ax-b| = {:.3e} exceeds {}*n*eps*|A||x| (ratio {:.2}) with growth factor {:.2}", rmax, cd, ratio, growth));
        }
    }
    let class = format!("{}:{}:{}", c.kind, if c.complex { "complex" } else { "real" }, if rf.swaps > 0 { "pivoted" } else { "nopivot" });
    Outcome::pass(class, n >= 3 && rf.swaps >= 1, json!({"n": n, "row_interchanges": rf.swaps, "backward_error_over_bound": if bound > 0.0 { rmax / bound } else { 0.0 }, "ratio_n_eps_A_x": ratio, "growth": growth, "max_multiplier": max_l}))
}

// ---- generators -----------------------------------------------------------------------------

fn unit() -> impl Strategy<Value = f64> {
    (-1_000_000i32..=1_000_000).prop_map(|k| k as f64 / 1.0e6)
}

fn vecn(len: usize) -> impl Strategy<Value = Vec<f64>> {
    proptest::collection::vec(unit(), len..=len)
}

fn body(n: usize, complex: bool) -> BoxedStrategy<Case> {
    let nn = n * n;
    let kinds = prop_oneof![
        3 => Just("iid"),
        2 => Just("sparse"),
        2 => Just("graded"),
        2 => Just("permtri"),
        2 => Just("nearsing"),
        1 => Just("singular"),
        2 => Just("int"),
    ];
    let shape = (0u8..8, proptest::collection::vec(0u8..10, n..=n), proptest::collection::vec(0u8..10, nn..=nn), 0usize..n);
    (kinds, vecn(nn), vecn(nn), vecn(n), vecn(n), proptest::collection::vec(0u8..10, nn..=nn), proptest::collection::vec(-8i32..=8, 2 * n..=2 * n), (0..n, 0..n, 1u32..14, any::<bool>()), shape)
        .prop_map(move |(kind, mut ar, mut ai, mut br, mut bi, mask, exps, (p, q, kexp, flag), (rhs_kind, bmask, pmask, bp))| {
            let mut struct_singular = false;
            match kind {
                "iid" => {}
                "sparse" => {
                    let thr = 3 + (mask[0] % 6); // 30..80 % zeros
                    for k in 0..nn {
                        if mask[k] < thr {
                            ar[k] = 0.0;
                            ai[k] = 0.0;
                        }
                    }
                }
                "graded" => {
                    for i in 0..n {
                        for j in 0..n {
                            let s = 10f64.powi(exps[i]) * 10f64.powi(exps[n + j]);
                            ar[i * n + j] *= s;
                            ai[i * n + j] *= s;
                        }
                    }
                }
                "permtri" => {
                    // upper (flag) or lower triangular, then rows rotated by p
                    let mut tr = vec![0.0; nn];
                    let mut ti = vec![0.0; nn];
                    for i in 0..n {
                        for j in 0..n {
                            let keep = if flag { j >= i } else { j <= i };
                            if keep {
                                let src = (i * n + j) % nn;
                                let (mut vr, vi) = (ar[src], ai[src]);
                                if i == j && vr.abs() < 0.1 {
                                    vr = if vr < 0.0 { vr - 0.5 } else { vr + 0.5 };
                                }
                                let dst = ((i + p) % n) * n + j;
                                tr[dst] = vr;
                                ti[dst] = vi;
                            }
                        }
                    }
                    ar = tr;
                    ai = ti;
                }
                "nearsing" => {
                    if n >= 2 {
                        // row p := row q (q != p) * 0.75 + 10^-k * e_q
                        let q2 = if q == p { (p + 1) % n } else { q };
                        for j in 0..n {
                            ar[p * n + j] = 0.75 * ar[q2 * n + j];
                            ai[p * n + j] = 0.75 * ai[q2 * n + j];
                        }
                        ar[p * n + q] += 10f64.powi(-(kexp as i32));
                    }
                }
                "singular" => {
                    struct_singular = true;
                    if flag {
                        for j in 0..n {
                            ar[p * n + j] = 0.0;
                            ai[p * n + j] = 0.0;
                        }
                    } else {
                        for i in 0..n {
                            ar[i * n + q] = 0.0;
                            ai[i * n + q] = 0.0;
                        }
                    }
                }
                _ => {
                    for k in 0..nn {
                        ar[k] = (ar[k] * 4.49).round();
                        ai[k] = (ai[k] * 4.49).round();
                    }
                }
            }
            if !complex {
                for v in ai.iter_mut() {
                    *v = 0.0;
                }
            }
            let bi0 = if complex { std::mem::take(&mut bi) } else { vec![0.0; n] };
            let mut bi = bi0;
            shape_rhs(rhs_kind, &bmask, bp, complex, &mut br, &mut bi);
            if complex && pmask[0] < 3 && matches!(kind, "iid" | "sparse" | "int") {
                // entries that are purely real or purely imaginary (the complex routines branch on zero parts)
                for k in 0..nn {
                    if pmask[k] < 4 {
                        ai[k] = 0.0;
                    } else if pmask[k] >= 8 {
                        ar[k] = 0.0;
                    }
                }
            }
            Case { n, kind: kind.to_string(), complex, ar, ai, br, bi, mis: Mis::None, struct_singular }
        })
        .boxed()
}

/// "for all right-hand sides": besides dense random ones, right-hand sides with exact zeros -- sparse,
/// unit vectors (the columns of an inverse), small integers, all zero, and for complex systems purely
/// real or purely imaginary ones.  kind 0..=2 leave the dense vector unchanged.
pub fn shape_rhs(kind: u8, bmask: &[u8], bp: usize, complex: bool, br: &mut [f64], bi: &mut [f64]) {
    let n = br.len();
    match kind {
        3 => {
            for i in 0..n {
                if bmask[i] < 5 {
                    br[i] = 0.0;
                    bi[i] = 0.0;
                }
            }
        }
        4 => {
            for i in 0..n {
                if i != bp % n {
                    br[i] = 0.0;
                    bi[i] = 0.0;
                }
            }
        }
        5 => {
            for i in 0..n {
                br[i] = (br[i] * 2.49).round();
                bi[i] = if complex { (bi[i] * 2.49).round() } else { 0.0 };
            }
        }
        6 => {
            for i in 0..n {
                if complex {
                    bi[i] = 0.0;
                }
                if bmask[i] < 3 {
                    br[i] = 0.0;
                }
            }
        }
        7 => {
            for i in 0..n {
                if complex {
                    br[i] = 0.0;
                    if bmask[i] < 3 {
                        bi[i] = 0.0;
                    }
                } else if bmask[0] < 2 {
                    br[i] = 0.0; // all-zero right-hand side
                } else if bmask[i] < 7 {
                    br[i] = 0.0;
                }
            }
        }
        _ => {}
    }
}

pub fn strategy() -> BoxedStrategy<Case> {
    let main = (1usize..=12, any::<bool>()).prop_flat_map(|(n, cx)| body(n, cx));
    let mism = (1usize..=6, 1usize..=6, any::<bool>(), any::<bool>(), 0usize..=9).prop_map(|(r, c, cx, which, l)| {
        if !which && cx && (l % 3 == 0) && (r != c || l > 4) {
            // imaginary part of another shape: same rows / other columns, other rows / same columns, both
            let n = r;
            let (ir, ic) = if r != c { if l % 2 == 0 { (n, c) } else { (c, n) } } else { (n + 1, n + 1) };
            Case { n, kind: "mismatch".into(), complex: true, ar: vec![], ai: vec![], br: vec![], bi: vec![], mis: Mis::ImagShape(ir, ic), struct_singular: false }
        } else if which && r != c {
            Case { n: r, kind: "mismatch".into(), complex: cx, ar: vec![], ai: vec![], br: vec![], bi: vec![], mis: Mis::NonSquare(r, c), struct_singular: false }
        } else {
            let n = r;
            let l = if l == n { l + 1 } else { l };
            let mut ar = vec![0.0; n * n];
            for i in 0..n {
                ar[i * n + i] = 2.0;
            }
            Case { n, kind: "mismatch".into(), complex: cx, ar, ai: vec![0.0; n * n], br: vec![1.0; n], bi: vec![0.0; n], mis: Mis::PivotLen(l), struct_singular: false }
        }
    });
    prop_oneof![30 => main, 1 => mism].boxed()
}

/// all n x n matrices (n <= 3) with integer entries in [-r, r]
pub fn exhaustive(r: i32) -> Vec<Case> {
    let mut out = vec![];
    let vals: Vec<f64> = (-r..=r).map(|v| v as f64).collect();
    let m = vals.len();
    for n in 1..=3usize {
        let nn = n * n;
        let total = m.pow(nn as u32);
        for code in 0..total {
            let mut k = code;
            let mut ar = vec![0.0; nn];
            for e in ar.iter_mut() {
                *e = vals[k % m];
                k /= m;
            }
            // right-hand sides: one dense, every unit vector, one with a leading and one with a trailing zero
            let mut rhss: Vec<Vec<f64>> = vec![(0..n).map(|i| 1.0 + i as f64 * 0.5).collect()];
            for u in 0..n {
                rhss.push((0..n).map(|i| if i == u { 1.0 } else { 0.0 }).collect());
            }
            if n >= 2 {
                rhss.push((0..n).map(|i| if i == 0 { 0.0 } else { 1.0 + i as f64 }).collect());
                rhss.push((0..n).map(|i| if i == n - 1 { 0.0 } else { 1.0 + i as f64 }).collect());
            }
            for br in rhss {
                out.push(Case { n, kind: format!("int-exh{}", r), complex: false, ar: ar.clone(), ai: vec![0.0; nn], br, bi: vec![0.0; n], mis: Mis::None, struct_singular: false });
            }
        }
    }
    out
}

pub fn run(ctx: &Ctx, known: &[Known]) -> Report {
    let (gen_cases, r) = match ctx.tier {
        Tier::Quick => (1_000_000, 1),
        Tier::Thorough => (20_000_000, 2),
    };
    let ex = exhaustive(r);
    let mut stats = run_list(&ex, &check, known);
    stats.exhaustive_part = Some(json!({"what": format!("all square matrices of size 1..3 with integer entries in [-{0},{0}]: singular <=> rejected (decided in exact rational arithmetic), non-singular => residual bounds", r), "cases": ex.len()}));
    if stats.violation.is_none() {
        let s2 = run_generated(ctx, "C16", "gen", &strategy, &check, gen_cases, known);
        merge(&mut stats, s2);
    }
    Report {
        id: "C16".into(),
        rule: "cases = real or complex Full matrices n=1..12 of kinds iid / sparse (30-80% zeros) / graded (row and column scalings 10^-8..10^8) / row-permuted triangular / near-singular (one row a multiple of another + 10^-k) / structurally singular (zero row or column) / small-integer, with arbitrary right-hand sides, plus shape and pivot-length mismatches, plus the exhaustive small-integer enumeration. Oracle: reference GEPP written in the harness (same pivot rule), exact rational elimination for the integer enumeration, Higham's backward-error bound with the residual accumulated in double-double. Non-trivial = n>=3 and at least one row interchange (or a singular/mismatch rejection for n>=2). Distinct = distinct canonical JSON of the case.".into(),
        assumptions: vec![
            "backward-error constant 4 (real) / 16 (complex) times n*eps*sum|U|*|x|, U from the harness's reference elimination (rigorous value 1.5 with exact division; the library multiplies by a reciprocal)".into(),
            "the norm form c*n*eps*|A||x| is asserted with c=16 (real) / 32 (complex) only for iid and integer matrices whose reference growth factor is <= 4".into(),
        ],
        min_nontrivial_frac: 0.3,
        stats,
        exhaustive: false,
    }
}
