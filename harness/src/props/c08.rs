//! C08 — Reported events are genuine, direction-filtered, ordered and consistent.

use crate::engine::*;
use crate::evgen::*;
use crate::instr::*;
use crate::problems::*;
use crate::props::c09::{opts, phase1, resolve};
pub use crate::props::c09::Case;
use crate::run::*;
use crate::util::*;
use proptest::prelude::*;
use serde_json::json;

/// the degenerate zero-length run: one list per event function, all empty, shapes still matching
fn check_zero_length(c: &Case) -> Outcome {
    let sp = &c.span;
    let prob = Prob::new(&c.prob, sp.x0, sp.x0 + 1.0);
    let n = prob.n;
    let name = c.method.name();
    // the recipes cannot be resolved against a grid: use them as they are, around x0
    let evs: Vec<EvSpec> = c
        .recipes
        .iter()
        .enumerate()
        .map(|(k, r)| {
            let g = match &r.kind {
                EvKind::Affine(a) => {
                    let mut a = a.clone();
                    a.resize(n, 0.5);
                    Ev::Affine { a, bt: 0.0, c: 0.25 * k as f64 }
                }
                EvKind::Bilinear(i, j) => Ev::Bilinear { i: *i % n, j: *j % n, c: 0.1 },
                _ => Ev::Time { c: sp.x0 + k as f64 - 1.0 },
            };
            EvSpec { g, dir: r.dir, terminal: r.terminal }
        })
        .collect();
    let mut instr = Instr::new(&prob, &evs);
    instr.use_jac = c.analytic_jac;
    let mut o = opts(c, n, true, None);
    o.first_step = None;
    let sol = match solve(&instr, sp.x0, sp.x0, &prob.y0(), &o) {
        RunResult::Ok(s) => s,
        other => return Outcome::viol(format!("{}: zero-length run with {} event functions gives {}", name, evs.len(), other.describe())),
    };
    if sol.t_events.len() != evs.len() || sol.y_events.len() != evs.len() {
        return Outcome::viol(format!("{}: zero-length run, {} states, {} event functions: t_events/y_events have {}/{} entries", name, n, evs.len(), sol.t_events.len(), sol.y_events.len()));
    }
    for k in 0..evs.len() {
        if sol.t_events[k].len() != sol.y_events[k].len() || !sol.t_events[k].is_empty() {
            return Outcome::viol(format!("{}: zero-length run: function {} has {} event times and {} event states", name, k, sol.t_events[k].len(), sol.y_events[k].len()));
        }
    }
    Outcome::pass(format!("{}:zero-length", name), evs.len() != n, json!({"events": 0, "n_event_functions": evs.len(), "n_states": n}))
}

pub fn check(c: &Case) -> Outcome {
    let sp = &c.span;
    if sp.x0 == sp.xend {
        return check_zero_length(c);
    }
    let d = sp.dir();
    let prob = Prob::new(&c.prob, sp.x0, sp.xend);
    let n = prob.n;
    let plain = match phase1(c, &prob) {
        Ok(p) => p,
        Err(e) => return Outcome::triv(format!("plain-run:{}", e)),
    };
    let resolved = resolve(c, &plain);
    let evs: Vec<EvSpec> = resolved.iter().map(|(e, _)| EvSpec { g: e.g.clone(), dir: e.dir, terminal: None }).collect();
    let mut instr = Instr::new(&prob, &evs);
    instr.dir = d;
    instr.use_jac = c.analytic_jac;
    instr.rec_ev = true;
    let sol = match solve(&instr, sp.x0, sp.xend, &prob.y0(), &opts(c, n, true, None)) {
        RunResult::Ok(s) => s,
        other => return Outcome::viol(format!("{}: plain run succeeded but the run with events gives {}", c.method.name(), other.describe())),
    };
    // the accepted steps as the solver took them (with first_step the reported samples are not the step ends)
    let (grid_t, grid_y) = crate::props::c09::step_grid(&instr.take_log(), d);
    if grid_t.len() < 2 {
        return Outcome::triv("no-step");
    }
    let name = c.method.name();
    if sol.t_events.len() != evs.len() || sol.y_events.len() != evs.len() {
        return Outcome::viol(format!("{}: {} event functions but t_events/y_events have {}/{} entries", name, evs.len(), sol.t_events.len(), sol.y_events.len()));
    }
    let grid = &grid_t;
    let m = grid.len();
    let mut genuine = 0usize;
    let mut total = 0usize;
    let mut worst_g: f64 = 0.0;
    for (k, e0) in evs.iter().enumerate() {
        // oracle on the function without its exact power-of-two factor (same zero set, same signs)
        let e = &EvSpec { g: e0.g.unscaled().clone(), dir: e0.dir, terminal: e0.terminal };
        let (te, ye) = (&sol.t_events[k], &sol.y_events[k]);
        if te.len() != ye.len() {
            return Outcome::viol(format!("{}: function {}: {} event times but {} event states", name, k, te.len(), ye.len()));
        }
        for w in te.windows(2) {
            if (w[1] - w[0]) * d < 0.0 {
                return Outcome::viol(format!("{}: events of function {} are not listed in the order of integration: {:e} then {:e} (d={})", name, k, w[0], w[1], d));
            }
        }
        for (t, y) in te.iter().zip(ye) {
            total += 1;
            if y.len() != n {
                return Outcome::viol(format!("{}: event state of function {} has dimension {} != {}", name, k, y.len(), n));
            }
            let tt = tau(sp.x0, sp.xend, *t);
            // bracketing accepted steps
            let cands: Vec<usize> = (0..m - 1).filter(|&i| *t >= grid[i].min(grid[i + 1]) - tt && *t <= grid[i].max(grid[i + 1]) + tt).collect();
            if cands.is_empty() {
                return Outcome::viol(format!("{}: event of function {} ({:?}) at t={:e} lies in no accepted step of the span [{:e},{:e}]", name, k, e.g, t, sp.x0, sp.xend));
            }
            // state = continuous solution
            let mut fy = vec![0.0; n];
            crate::instr::Rhs::f(&prob, *t, y, &mut fy);
            let slope = inf_norm(&fy);
            match sol.sol(*t) {
                Ok(v) => {
                    let tol = 1e-10 * (1.0 + inf_norm(y)) + 8.0 * slope * ulp(t.abs().max(sp.x0.abs())) + 2.0 * slope * 2e-12;
                    if max_abs_diff(&v, y) > tol {
                        return Outcome::viol(format!("{}: event state of function {} at t={:e} differs from sol(t) by {:e} (tol {:e})", name, k, t, max_abs_diff(&v, y), tol));
                    }
                }
                Err(er) => return Outcome::viol(format!("{}: sol() failed at event time {:e}: {}", name, t, er)),
            }
            // g is zero to root-finder accuracy: Lipschitz constant of s -> g(s, sol(s)) on the bracketing steps
            let gval = e.g.g(*t, y);
            let mut lip: f64 = 0.0;
            for &i in &cands {
                let (a, b) = (grid[i], grid[i + 1]);
                let mut prev = None;
                for q in 0..=64 {
                    let s = a + (b - a) * (q as f64) / 64.0;
                    if let Ok(v) = sol.sol(s) {
                        let gv = e.g.g(s, &v);
                        if let Some((ps, pg)) = prev {
                            let ds: f64 = s - ps;
                            if ds != 0.0 {
                                lip = lip.max(((gv - pg) as f64 / ds).abs());
                            }
                        }
                        prev = Some((s, gv));
                    }
                }
            }
            let gs = g_scale(&e.g, *t, y);
            let bound = 2.0 * lip * 4.0 * (2e-12 + 4.0 * f64::EPSILON * t.abs()) + 16.0 * f64::EPSILON * gs;
            if gval.abs() > bound {
                return Outcome::viol(format!("{}: |g| = {:e} at the reported event t={:e} of function {} ({:?}) exceeds root-finder accuracy {:e} (Lipschitz {:e})", name, gval.abs(), t, k, e.g, bound, lip));
            }
            worst_g = worst_g.max(gval.abs() / bound);
            // direction of the sign change at the bracket ends, in the order of integration
            let mut ok_dir = false;
            let mut strict = false;
            for &i in &cands {
                let gl = e.g.g(grid[i], &grid_y[i]);
                let gr = e.g.g(grid[i + 1], &grid_y[i + 1]);
                let ok = match e.dir {
                    0 => (gl <= 0.0 && gr >= 0.0) || (gl >= 0.0 && gr <= 0.0),
                    1.. => gl <= 0.0 && gr >= 0.0,
                    _ => gl >= 0.0 && gr <= 0.0,
                };
                if ok {
                    ok_dir = true;
                    if gl.abs() > 1e-9 && gr.abs() > 1e-9 {
                        strict = true;
                    }
                }
            }
            if !ok_dir {
                let i = cands[0];
                return Outcome::viol(format!(
                    "{}: event of function {} ({:?}) at t={:e} does not mark a sign change of the configured direction {} in the order of integration: g({:e})={:e}, g({:e})={:e}",
                    name, k, e.g, t, e.dir, grid[i], e.g.g(grid[i], &grid_y[i]), grid[i + 1], e.g.g(grid[i + 1], &grid_y[i + 1])
                ));
            }
            if strict {
                genuine += 1;
            }
        }
    }
    // with the terminal flags of the recipes the run stops at an event: every reported event then lies inside the
    // integrated span, i.e. not later than the stop
    if resolved.iter().any(|(e, _)| e.terminal.is_some()) {
        let evt: Vec<EvSpec> = resolved.iter().map(|(e, _)| e.clone()).collect();
        let mut it = Instr::new(&prob, &evt);
        it.dir = d;
        it.use_jac = c.analytic_jac;
        if let RunResult::Ok(st) = solve(&it, sp.x0, sp.xend, &prob.y0(), &opts(c, n, true, None)) {
            if st.status == ivp::prelude::Status::UserInterrupt {
                let t_stop = *st.t.last().unwrap();
                for (k, te) in st.t_events.iter().enumerate() {
                    if te.len() != st.y_events[k].len() {
                        return Outcome::viol(format!("{}: function {}: {} event times but {} event states (terminal run)", name, k, te.len(), st.y_events[k].len()));
                    }
                    if let Some(t) = te.iter().find(|t| (**t - t_stop) * d > 0.0) {
                        return Outcome::viol(format!("{}: the run stops at the terminal event at {:e}, yet an event of function {} ({:?}) is reported at {:e}, outside the integrated span", name, t_stop, k, evt[k].g, t));
                    }
                    // y_e = continuous solution at t_e also in the run that stops there (the last stored step is the one cut by the stop)
                    for (t, y) in te.iter().zip(&st.y_events[k]) {
                        let mut fy = vec![0.0; n];
                        crate::instr::Rhs::f(&prob, *t, y, &mut fy);
                        let slope = inf_norm(&fy);
                        let tol = 1e-10 * (1.0 + inf_norm(y)) + 8.0 * slope * ulp(t.abs().max(sp.x0.abs())) + 2.0 * slope * 2e-12;
                        match st.sol(*t) {
                            Ok(v) => {
                                if max_abs_diff(&v, y) > tol {
                                    return Outcome::viol(format!("{}: run stopped by a terminal event at {:e}: event state of function {} at t={:e} differs from sol(t) by {:e} (tol {:e})", name, t_stop, k, t, max_abs_diff(&v, y), tol));
                                }
                            }
                            Err(er) => return Outcome::viol(format!("{}: run stopped by a terminal event at {:e}: sol() failed at event time {:e}: {}", name, t_stop, t, er)),
                        }
                    }
                }
            }
        }
    }
    Outcome::pass(format!("{}:{}", name, if total == 0 { "no-events" } else { "events" }), genuine >= 1, json!({"events": total, "strict_bracket_events": genuine, "worst_g_over_bound": worst_g, "steps": m - 1}))
}

pub fn strategy() -> BoxedStrategy<Case> {
    // one case in forty is the zero-length run (x0 == xend) with the same event functions
    (crate::props::c09::strategy(), 0u8..40)
        .prop_map(|(mut c, z)| {
            if z == 0 {
                c.span.xend = c.span.x0;
            }
            c
        })
        .boxed()
}

pub fn run(ctx: &Ctx, known: &[Known]) -> Report {
    let cases = match ctx.tier {
        Tier::Quick => 30_000,
        Tier::Thorough => 1_000_000,
    };
    let stats = run_generated(ctx, "C08", "gen", &strategy, &check, cases, known);
    Report {
        id: "C08".into(),
        rule: "two-phase cases as in C09 (1..4 event functions with roots placed mid-step, 1e-13..1e-9 beside a grid point, several in one step; all three direction filters; both integration directions; six methods; dense_output on). For every reported (t_e, y_e): inside an accepted step of the span, y_e = sol(t_e), |g(t_e,y_e)| within root-finder accuracy scaled by the sampled Lipschitz constant of g along the dense solution, sign pattern of g at the bracketing step ends agrees with the configured direction in the order of integration, per-function events ordered, shapes match; the same y_e = sol(t_e) clause in the run that carries the recipes' terminal flags and stops at an event. Non-trivial = at least one event whose |g| exceeds 1e-9 at both bracket ends. Distinct = distinct canonical JSON.".into(),
        assumptions: vec![
            "|g| bound = 2e-12 (end-point shortcut of the root finder, slope independent) + 8*Lip*(2e-12 + 4 eps |t|) + 16 eps * (magnitude of g's terms)".into(),
            "event functions with O(1) slopes (not scaled below 1e-9)".into(),
        ],
        min_nontrivial_frac: 0.5,
        stats,
        exhaustive: false,
    }
}
