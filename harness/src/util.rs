//! Small numeric and plumbing helpers.

use std::any::Any;

pub fn fnv64(b: &[u8]) -> u64 {
    let mut h: u64 = 0xcbf29ce484222325;
    for &x in b {
        h ^= x as u64;
        h = h.wrapping_mul(0x100000001b3);
    }
    h
}

pub fn panic_msg(p: &Box<dyn Any + Send>) -> String {
    if let Some(s) = p.downcast_ref::<&str>() {
        s.to_string()
    } else if let Some(s) = p.downcast_ref::<String>() {
        s.clone()
    } else if p.downcast_ref::<crate::instr::BudgetExceeded>().is_some() {
        "evaluation budget exceeded".to_string()
    } else {
        "<non-string panic payload>".to_string()
    }
}

/// spacing of f64 at |t|
pub fn ulp(t: f64) -> f64 {
    let a = t.abs();
    if a == 0.0 {
        return f64::MIN_POSITIVE;
    }
    let b = f64::from_bits(a.to_bits() + 1);
    b - a
}

pub fn inf_norm(v: &[f64]) -> f64 {
    v.iter().fold(0.0f64, |a, &b| a.max(b.abs()))
}

pub fn max_abs_diff(a: &[f64], b: &[f64]) -> f64 {
    a.iter().zip(b).fold(0.0f64, |m, (x, y)| m.max((x - y).abs()))
}

/// bit-for-bit equality; two NaNs are equal whatever their sign and payload (the payload of a NaN is not a
/// computed value: -(NaN) and NaN differ in a bit)
pub fn bits_eq(a: &[f64], b: &[f64]) -> bool {
    a.len() == b.len() && a.iter().zip(b).all(|(x, y)| x.to_bits() == y.to_bits() || (x.is_nan() && y.is_nan()))
}

pub fn bits_eq2(a: &[Vec<f64>], b: &[Vec<f64>]) -> bool {
    a.len() == b.len() && a.iter().zip(b).all(|(x, y)| bits_eq(x, y))
}

pub fn all_finite(v: &[f64]) -> bool {
    v.iter().all(|x| x.is_finite())
}

/// time slack: 4 ulp of the largest magnitude involved
pub fn tau(x0: f64, xend: f64, t: f64) -> f64 {
    let mut m = x0.abs().max(t.abs());
    if xend.is_finite() {
        m = m.max(xend.abs());
    }
    4.0 * ulp(m)
}

/// monotone index map (shrinks towards 0)
pub fn pick(idx: u16, len: usize) -> usize {
    ((idx as usize) * len) >> 16
}

/// least-squares slope of ys over xs
pub fn ls_slope(xs: &[f64], ys: &[f64]) -> f64 {
    let n = xs.len() as f64;
    let mx = xs.iter().sum::<f64>() / n;
    let my = ys.iter().sum::<f64>() / n;
    let mut sxy = 0.0;
    let mut sxx = 0.0;
    for (x, y) in xs.iter().zip(ys) {
        sxy += (x - mx) * (y - my);
        sxx += (x - mx) * (x - mx);
    }
    sxy / sxx
}

/// Indices of the `events()` calls that are accepted-step ends: the handler evaluates the event
/// functions once per accepted step (at its end) and the root finder only evaluates strictly
/// inside that step, so step ends are exactly the calls that set a new record in the direction
/// of integration (index 0 = initial call).
pub fn step_end_calls(ev_t: &[f64], d: f64) -> Vec<usize> {
    let mut out = vec![];
    let mut best = f64::NEG_INFINITY;
    for (k, t) in ev_t.iter().enumerate() {
        let v = t * d;
        if k == 0 || v > best {
            out.push(k);
            best = v;
        }
    }
    out
}
