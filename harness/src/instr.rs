//! Instrumented IVP (call log, evaluation budget, fault injection) and a recording SolOut.

use ivp::prelude::*;
use ivp::solout::SolOut;
use serde::{Deserialize, Serialize};
use std::cell::{Cell, RefCell};

/// A right-hand side as seen by the harness.
pub trait Rhs {
    fn dim(&self) -> usize;
    fn f(&self, t: f64, y: &[f64], dy: &mut [f64]);
    fn has_jac(&self) -> bool {
        false
    }
    /// dense analytic Jacobian, row-major n*n
    fn jac_dense(&self, _t: f64, _y: &[f64], _j: &mut [f64]) {}
}

/// Event functions available to generated cases.
#[derive(Serialize, Deserialize, Clone, Debug)]
pub enum Ev {
    /// a.y + bt*t - c
    Affine { a: Vec<f64>, bt: f64, c: f64 },
    /// y_i*y_j - c
    Bilinear { i: usize, j: usize, c: f64 },
    /// sin(omega*(t-t0)) - c*y_i
    SinT { omega: f64, t0: f64, c: f64, i: usize },
    /// t - c
    Time { c: f64 },
    /// constant (never crosses; used as step counter)
    Const { v: f64 },
    /// 2^k * g: an exact rescaling (same zero set, same signs) unless it under- or overflows
    Scaled { k: i32, g: Box<Ev> },
    /// 1.5 + sin(omega*(t-t0)): strictly positive, no root
    Pos { omega: f64, t0: f64 },
    /// g(-t, y): the event function of the time-reflected problem
    Mirror { g: Box<Ev> },
}

impl Ev {
    pub fn g(&self, t: f64, y: &[f64]) -> f64 {
        match self {
            Ev::Affine { a, bt, c } => {
                let mut s = 0.0;
                for (ai, yi) in a.iter().zip(y) {
                    s += ai * yi;
                }
                s + bt * t - c
            }
            Ev::Bilinear { i, j, c } => y[*i % y.len()] * y[*j % y.len()] - c,
            Ev::SinT { omega, t0, c, i } => (omega * (t - t0)).sin() - c * y[*i % y.len()],
            Ev::Time { c } => t - c,
            Ev::Const { v } => *v,
            Ev::Scaled { k, g } => ldexp(g.g(t, y), *k),
            Ev::Pos { omega, t0 } => 1.5 + (omega * (t - t0)).sin(),
            Ev::Mirror { g } => g.g(-t, y),
        }
    }
    /// the function without its power-of-two factor
    pub fn unscaled(&self) -> &Ev {
        match self {
            Ev::Scaled { g, .. } => g.unscaled(),
            other => other,
        }
    }
}

/// x * 2^k without intermediate overflow (k in -2200..2200)
pub fn ldexp(x: f64, k: i32) -> f64 {
    let mut x = x;
    let mut k = k;
    while k > 1000 {
        x *= f64::from_bits(((1000 + 1023) as u64) << 52);
        k -= 1000;
    }
    while k < -1000 {
        x *= f64::from_bits(((-1000 + 1023) as u64) << 52);
        k += 1000;
    }
    x * f64::from_bits(((k + 1023) as u64) << 52)
}

#[derive(Serialize, Deserialize, Clone, Debug)]
pub struct EvSpec {
    pub g: Ev,
    /// -1, 0, +1
    pub dir: i8,
    pub terminal: Option<usize>,
}

#[derive(Serialize, Deserialize, Clone, Debug)]
pub enum Fault {
    /// every component becomes `v` (0 = NaN, 1 = +inf, 2 = -inf) once d*(t - at) >= 0
    From { at: f64, v: u8 },
    /// component `i` only
    CompFrom { at: f64, i: usize, v: u8 },
    /// when the max-norm of y exceeds theta
    NormAbove { theta: f64, v: u8 },
}

fn fault_val(v: u8) -> f64 {
    match v {
        0 => f64::NAN,
        1 => f64::INFINITY,
        _ => f64::NEG_INFINITY,
    }
}

pub struct BudgetExceeded;

thread_local! {
    /// right-hand-side evaluations made on this thread (used to bound the work spent on shrinking)
    pub static WORK: Cell<u64> = Cell::new(0);
}

#[derive(Default, Clone, Debug)]
pub struct Log {
    pub ode_calls: u64,
    pub ode_calls_in_jac: u64,
    pub jac_calls: u64,
    pub ev_calls: u64,
    pub mass_calls: u64,
    pub t_min: f64,
    pub t_max: f64,
    pub ev_t: Vec<f64>,
    pub ev_y: Vec<Vec<f64>>,
    pub ode_t: Vec<f64>,
    pub ode_y: Vec<Vec<f64>>,
    pub nonfinite_returned: bool,
    /// running hash over the bits of every (t, y) handed to `ode` (incl. Jacobian differencing)
    pub call_hash: u64,
    /// ode_t.len() at the moment of each `events` call
    pub ev_at_odeidx: Vec<usize>,
}

pub struct Instr<'a> {
    pub rhs: &'a dyn Rhs,
    pub events: &'a [EvSpec],
    pub use_jac: bool,
    /// banded analytic jacobian: write only entries with -mu <= i-j <= ml
    pub jac_band: Option<(usize, usize)>,
    /// None => do not override `mass` (default implementation is used)
    pub mass: Option<&'a Matrix>,
    pub budget: u64,
    pub fault: Option<Fault>,
    pub dir: f64,
    pub rec_ode: bool,
    pub rec_ode_y: bool,
    pub rec_ev: bool,
    pub hash_calls: bool,
    pub log: RefCell<Log>,
    in_jac: Cell<bool>,
}

impl<'a> Instr<'a> {
    pub fn new(rhs: &'a dyn Rhs, events: &'a [EvSpec]) -> Self {
        Instr {
            rhs,
            events,
            use_jac: false,
            jac_band: None,
            mass: None,
            budget: 1_000_000,
            fault: None,
            dir: 1.0,
            rec_ode: false,
            rec_ode_y: false,
            rec_ev: false,
            hash_calls: false,
            log: RefCell::new(Log { t_min: f64::INFINITY, t_max: f64::NEG_INFINITY, ..Default::default() }),
            in_jac: Cell::new(false),
        }
    }
    pub fn take_log(&self) -> Log {
        self.log.replace(Log { t_min: f64::INFINITY, t_max: f64::NEG_INFINITY, ..Default::default() })
    }
    fn see_t(&self, t: f64) {
        let mut l = self.log.borrow_mut();
        if t < l.t_min {
            l.t_min = t;
        }
        if t > l.t_max {
            l.t_max = t;
        }
    }
}

/// adapter that overrides nothing but `ode`: gives access to the crate's default jac / mass
struct Plain<'b, 'a>(&'b Instr<'a>);
impl<'b, 'a> IVP for Plain<'b, 'a> {
    fn ode(&self, x: f64, y: &[f64], dydx: &mut [f64]) {
        self.0.ode(x, y, dydx)
    }
}

impl<'a> IVP for Instr<'a> {
    fn ode(&self, x: f64, y: &[f64], dydx: &mut [f64]) {
        {
            let mut l = self.log.borrow_mut();
            if self.in_jac.get() {
                l.ode_calls_in_jac += 1;
            } else {
                l.ode_calls += 1;
            }
            WORK.with(|w| w.set(w.get() + 1));
            if l.ode_calls + l.ode_calls_in_jac > self.budget {
                drop(l);
                std::panic::panic_any(BudgetExceeded);
            }
            if self.hash_calls {
                let mut h = l.call_hash ^ x.to_bits();
                h = h.wrapping_mul(0x100000001b3);
                for v in y {
                    h ^= v.to_bits();
                    h = h.wrapping_mul(0x100000001b3);
                }
                l.call_hash = h;
            }
            if self.rec_ode && !self.in_jac.get() {
                l.ode_t.push(x);
                if self.rec_ode_y {
                    l.ode_y.push(y.to_vec());
                }
            }
        }
        self.see_t(x);
        self.rhs.f(x, y, dydx);
        if let Some(f) = &self.fault {
            match f {
                Fault::From { at, v } => {
                    if self.dir * (x - at) >= 0.0 {
                        for d in dydx.iter_mut() {
                            *d = fault_val(*v);
                        }
                    }
                }
                Fault::CompFrom { at, i, v } => {
                    if self.dir * (x - at) >= 0.0 {
                        let n = dydx.len();
                        dydx[*i % n] = fault_val(*v);
                    }
                }
                Fault::NormAbove { theta, v } => {
                    // outside the ball, or an argument that is already NaN (a real right-hand side propagates NaN)
                    if crate::util::inf_norm(y) > *theta || y.iter().any(|v| v.is_nan()) {
                        for d in dydx.iter_mut() {
                            *d = fault_val(*v);
                        }
                    }
                }
            }
        }
        if dydx.iter().any(|v| !v.is_finite()) {
            self.log.borrow_mut().nonfinite_returned = true;
        }
    }

    fn events(&self, x: f64, y: &[f64], out: &mut [f64]) {
        {
            let mut l = self.log.borrow_mut();
            l.ev_calls += 1;
            if self.rec_ev {
                l.ev_t.push(x);
                l.ev_y.push(y.to_vec());
                let k = l.ode_t.len();
                l.ev_at_odeidx.push(k);
            }
        }
        self.see_t(x);
        for (o, e) in out.iter_mut().zip(self.events) {
            *o = e.g.g(x, y);
        }
    }

    fn n_events(&self) -> usize {
        self.events.len()
    }

    fn event_config(&self, i: usize) -> EventConfig {
        let mut c = EventConfig::new();
        let e = &self.events[i];
        // every way of building the same configuration (the setters must commute): odd-numbered functions set the
        // occurrence count first and then the direction through all() / positive() / negative()
        if i % 2 == 0 {
            // the integer conversion maps every positive value to Positive and every negative one to Negative:
            // use magnitudes other than 1 as well (chosen by a hash of the function's parameters)
            let h = format!("{:?}", e.g).bytes().fold(0u32, |a, b| a.wrapping_mul(31).wrapping_add(b as u32));
            let mult = [1i32, 2, 1000, i32::MAX][(h % 4) as usize];
            c.direction(Direction::from((e.dir as i32).saturating_mul(mult)));
            if let Some(k) = e.terminal {
                c.terminal_count(k);
            }
        } else {
            match e.terminal {
                Some(1) => c.terminal(),
                Some(k) => c.terminal_count(k),
                None => {}
            }
            match e.dir {
                0 => c.all(),
                1.. => c.positive(),
                _ => c.negative(),
            }
        }
        c
    }

    fn jac(&self, x: f64, y: &[f64], j: &mut Matrix) {
        self.log.borrow_mut().jac_calls += 1;
        self.see_t(x);
        if self.use_jac && self.rhs.has_jac() {
            let n = y.len();
            let mut d = vec![0.0; n * n];
            self.rhs.jac_dense(x, y, &mut d);
            for r in 0..n {
                for c in 0..n {
                    let inband = match self.jac_band {
                        None => true,
                        Some((ml, mu)) => (r as isize - c as isize) <= ml as isize && (c as isize - r as isize) <= mu as isize,
                    };
                    if inband {
                        j[(r, c)] = d[r * n + c];
                    }
                }
            }
        } else {
            self.in_jac.set(true);
            let p = Plain(self);
            IVP::jac(&p, x, y, j);
            self.in_jac.set(false);
        }
    }

    fn mass(&self, m: &mut Matrix) {
        self.log.borrow_mut().mass_calls += 1;
        match self.mass {
            Some(src) => {
                let n = m.nrows();
                for r in 0..n {
                    for c in 0..n {
                        let v = src[(r, c)];
                        let writable = match &m.storage {
                            MatrixStorage::Full => true,
                            MatrixStorage::Identity => false,
                            MatrixStorage::Banded { ml, mu } => {
                                (r as isize - c as isize) <= *ml as isize && (c as isize - r as isize) <= *mu as isize
                            }
                        };
                        if writable {
                            m[(r, c)] = v;
                        }
                    }
                }
            }
            None => {
                let p = Plain(self);
                IVP::mass(&p, m);
            }
        }
    }
}

// ---------------------------------------------------------------------------------------------
// Recording SolOut for the low-level solvers

#[derive(Clone, Debug)]
pub struct CbRec {
    pub xold: f64,
    pub x: f64,
    pub y: Vec<f64>,
    pub has_interp: bool,
    pub at_xold: Vec<f64>,
    pub at_x: Vec<f64>,
    pub bounds: (f64, f64),
    /// interpolant evaluated at xold + theta*(x - xold) for the probe thetas
    pub at_theta: Vec<Vec<f64>>,
    /// ode calls observed so far (filled by the caller through `ode_counter`)
    pub ode_calls_before: u64,
}

#[derive(Serialize, Deserialize, Clone, Debug, PartialEq)]
pub enum Act {
    Continue,
    Interrupt,
    /// multiply the state by the factor and return ModifiedSolution
    Modify(f64),
    /// return ControlFlag::XOut(x + d): announce the next output abscissa ("dense output on demand")
    XOut(f64),
}

pub struct RecSolOut<'a> {
    pub recs: Vec<CbRec>,
    /// action at callback index k (0 = initial call); missing => Continue
    pub script: Vec<(usize, Act)>,
    pub counter: Option<&'a RefCell<Log>>,
    pub thetas: Vec<f64>,
}

impl<'a> RecSolOut<'a> {
    pub fn new(script: Vec<(usize, Act)>) -> Self {
        RecSolOut { recs: Vec::new(), script, counter: None, thetas: Vec::new() }
    }
}

impl<'a> SolOut for RecSolOut<'a> {
    fn solout(&mut self, xold: f64, x: &mut f64, y: &mut [f64], interp: Option<&StepInterpolant<'_>>) -> ControlFlag {
        let k = self.recs.len();
        let n = y.len();
        let mut rec = CbRec {
            xold,
            x: *x,
            y: y.to_vec(),
            has_interp: interp.is_some(),
            at_xold: vec![],
            at_x: vec![],
            bounds: (0.0, 0.0),
            at_theta: vec![],
            ode_calls_before: self.counter.map(|c| { let l = c.borrow(); l.ode_calls + l.ode_calls_in_jac }).unwrap_or(0),
        };
        if let Some(ip) = interp {
            let mut a = vec![0.0; n];
            let mut b = vec![0.0; n];
            ip.interpolate(xold, &mut a);
            ip.interpolate(*x, &mut b);
            rec.at_xold = a;
            rec.at_x = b;
            rec.bounds = ip.bounds();
            for th in &self.thetas {
                let mut v = vec![0.0; n];
                ip.interpolate(xold + th * (*x - xold), &mut v);
                rec.at_theta.push(v);
            }
        }
        self.recs.push(rec);
        for (idx, act) in &self.script {
            if *idx == k {
                match act {
                    Act::Continue => return ControlFlag::Continue,
                    Act::Interrupt => return ControlFlag::Interrupt,
                    Act::Modify(c) => {
                        for v in y.iter_mut() {
                            *v *= *c;
                        }
                        return ControlFlag::ModifiedSolution;
                    }
                    Act::XOut(d) => return ControlFlag::XOut(*x + *d),
                }
            }
        }
        ControlFlag::Continue
    }
}
