//! C02 — Each method attains its advertised order.

use crate::engine::*;
use crate::instr::*;
use crate::lowlevel::*;
use crate::problems::*;
use crate::run::*;
use crate::trees;
use crate::util::*;
use ivp::prelude::Status;
use proptest::prelude::*;
use serde::{Deserialize, Serialize};
use serde_json::json;
use std::cell::RefCell;

#[derive(Serialize, Deserialize, Clone, Debug)]
pub enum Case {
    /// tableau extraction: x0 = xs/8, h = sign * 2^hk
    /// `clip`: first_step = 2h so that the step is clipped to land on xend = x0 + h;
    /// `two`: two consecutive steps (the second must apply the same weights, starting from the
    /// derivative at the new point); `dense`: the low-level solver's dense_output flag; `nocb`: the solver is
    /// called without a SolOut callback (`None`)
    Tableau { method: Meth, xs: i32, hk: i32, neg: bool, #[serde(default)] clip: bool, #[serde(default)] two: bool, #[serde(default = "yes")] dense: bool, #[serde(default)] nocb: bool },
    /// local error slope on a closed-form problem
    Slope { prob: ProbSpec, x0: f64, back: bool, method: Meth, analytic_jac: bool },
    /// one Radau step on y' = lambda y, z = h*lambda = (re, im)
    Pade { re: f64, im: f64, h: f64, x0: f64, back: bool, u0: [f64; 2] },
    /// every accepted step of an ordinary Radau run on y' = lambda*y (analytic Jacobian) is a Radau IIA step
    PadeRun { re: f64, im: f64, mult: f64, e: f64, x0: f64, back: bool, u0: [f64; 2] },
    /// pure quadrature y' = p'(t), degree deg, coefficients in scaled time
    Quad { method: Meth, deg: usize, coef: Vec<f64>, x0: f64, len: f64, back: bool },
    /// accepted steps as a function of the tolerance
    Scaling { method: Meth, a: f64, b: f64, theta: f64, x0: f64, back: bool, #[serde(default)] mag2: i32 },
    /// one Radau step of size h = hr/rate on a nonlinear problem, Newton iterated to 10^-ntol_exp: the new state is the
    /// solution of the three-stage Radau IIA collocation equations (solved independently by the harness)
    Colloc { prob: ProbSpec, x0: f64, back: bool, hr: f64, analytic_jac: bool, ntol_exp: i32, #[serde(default)] maxiter: Option<usize> },
    /// a callback answering XOut (dense output on demand) leaves every accepted step the method's step from (x, y)
    XOut(crate::xoutrel::XCase),
}

fn yes() -> bool {
    true
}

fn order_of(m: Meth) -> usize {
    match m {
        Meth::RK4 => 4,
        Meth::RK23 => 3,
        Meth::DOPRI5 => 5,
        Meth::DOP853 => 8,
        Meth::RADAU => 5,
        Meth::BDF => 0,
    }
}

// ---- synthetic right-hand side: the i-th call returns the unit vector e_i --------------------
struct UnitRhs {
    dim: usize,
    calls: RefCell<Vec<(f64, Vec<f64>)>>,
}
impl Rhs for UnitRhs {
    fn dim(&self) -> usize {
        self.dim
    }
    fn f(&self, t: f64, y: &[f64], dy: &mut [f64]) {
        let mut c = self.calls.borrow_mut();
        let i = c.len();
        c.push((t, y.to_vec()));
        for v in dy.iter_mut() {
            *v = 0.0;
        }
        if i < self.dim {
            dy[i] = 1.0;
        }
    }
}

pub struct Tableau {
    pub s: usize,
    pub a: Vec<f64>,
    pub b: Vec<f64>,
    pub c: Vec<f64>,
    pub ncalls: usize,
}

/// stages before the new-point evaluation, total calls in one accepted step
fn shape(m: Meth) -> (usize, usize) {
    match m {
        Meth::RK4 => (4, 5),
        Meth::RK23 => (3, 4),
        Meth::DOPRI5 => (6, 7),
        Meth::DOP853 => (12, 16),
        _ => (0, 0),
    }
}

/// number of right-hand-side calls per accepted step (DOP853 skips its 3 dense stages when dense output is off)
fn calls_per_step(m: Meth, dense: bool) -> usize {
    let (_, total) = shape(m);
    if m == Meth::DOP853 && !dense { total - 3 } else { total }
}

struct Nop;
impl ivp::solout::SolOut for Nop {
    fn solout(&mut self, _xold: f64, _x: &mut f64, _y: &mut [f64], _i: Option<&ivp::prelude::StepInterpolant<'_>>) -> ivp::prelude::ControlFlag {
        ivp::prelude::ControlFlag::Continue
    }
}

pub fn extract(m: Meth, x0: f64, h: f64, clip: bool, two: bool, dense: bool) -> Result<Tableau, String> {
    extract_cb(m, x0, h, clip, two, dense, false)
}

pub fn extract_cb(m: Meth, x0: f64, h: f64, clip: bool, two: bool, dense: bool, nocb: bool) -> Result<Tableau, String> {
    let (s, _) = shape(m);
    let per = calls_per_step(m, dense);
    // step 1 makes `per` calls (incl. the initial derivative); step 2 re-uses the new-point
    // derivative of step 1 as its first stage and makes per-1 further calls
    let total = if two { 2 * per - 1 } else { per };
    let rhs = UnitRhs { dim: total, calls: RefCell::new(vec![]) };
    let none: Vec<EvSpec> = vec![];
    let instr = Instr::new(&rhs, &none);
    let y0 = vec![0.0; total];
    let nsteps = if two { 2.0 } else { 1.0 };
    let lo = LowOpts { first_step: Some(if clip { 2.0 * h } else { h }), max_step: if two { Some(h.abs()) } else { None }, dense: Some(dense), identity_mass: true, ..Default::default() };
    let mut so = Nop;
    let r = guarded(|| solve_low_opt(m, &instr, x0, x0 + nsteps * h, &y0, &Tol::S(0.0), &Tol::S(1e300), &lo, if nocb { None } else { Some(&mut so) }))?;
    let r = r?;
    if r.status != Status::Success {
        return Err(format!("extraction run ended with {}", status_name(r.status)));
    }
    let calls = rhs.calls.borrow();
    if calls.len() != total || r.steps.accepted != nsteps as usize {
        return Err(format!("{} made {} right-hand-side calls in {} accepted steps, expected {} calls in {} steps (dense_output={})", m.name(), calls.len(), r.steps.accepted, total, nsteps, dense));
    }
    let mut a = vec![0.0; s * s];
    let mut c = vec![0.0; s];
    for i in 0..s {
        c[i] = (calls[i].0 - x0) / h;
        for j in 0..s {
            a[i * s + j] = calls[i].1[j] / h;
        }
        for j in i..total {
            if calls[i].1[j] != 0.0 {
                return Err(format!("stage {} depends on stage {} (not explicit / wrong call order)", i, j));
            }
        }
    }
    let b: Vec<f64> = (0..s).map(|j| calls[s].1[j] / h).collect();
    if (calls[s].0 - (x0 + h)).abs() > 4.0 * ulp(x0.abs() + h.abs()) {
        return Err(format!("the new-point derivative is evaluated at t={:e}, not at x0+h={:e}", calls[s].0, x0 + h));
    }
    if two {
        // second step: stage i of step 2 is call per-1+i for i >= 1; its first stage derivative is call s
        // (the new-point evaluation of step 1).  Its argument minus y1 (= h*b) must be h*row_i again.
        let idx = |i: usize| if i == 0 { s } else { per - 1 + i };
        let x1 = x0 + h;
        for i in 1..s {
            let (t, y) = &calls[idx(i)];
            let ci = (t - x1) / h;
            if (ci - c[i]).abs() > 8.0 * ulp(x0.abs() + 2.0 * h.abs()) / h.abs() {
                return Err(format!("second step: stage {} evaluated at c={:e}, first step used c={:e}", i, ci, c[i]));
            }
            for j in 0..i {
                let w = y[idx(j)] / h;
                if w != a[i * s + j] {
                    return Err(format!("second step: stage {} applies weight {:e} to stage {} (first step: {:e}); with dense_output={} the second step does not start from the derivative at the new point or uses different weights", i, w, j, a[i * s + j], dense));
                }
            }
            // and nothing else but y1
            for (q, v) in y.iter().enumerate() {
                let is_stage2 = (0..i).any(|j| idx(j) == q);
                if !is_stage2 {
                    let want = if q < s { h * b[q] } else { 0.0 };
                    if (v - want).abs() > 4.0 * f64::EPSILON * want.abs() {
                        return Err(format!("second step: stage {} argument has {:e} in the component of call {}, expected {:e} (y1 = y0 + h*b)", i, v, q, want));
                    }
                }
            }
        }
    }
    Ok(Tableau { s, a, b, c, ncalls: calls.len() })
}

fn check_tableau(m: Meth, xs: i32, hk: i32, neg: bool, clip: bool, two: bool, dense: bool, nocb: bool) -> Outcome {
    let x0 = xs as f64 / 8.0;
    let h = if neg { -1.0 } else { 1.0 } * 2f64.powi(hk);
    let t = match extract_cb(m, x0, h, clip, two, dense, nocb) {
        Ok(t) => t,
        Err(e) => return Outcome::viol(format!("{} (x0={}, h={}, clipped={}, two steps={}, dense_output={}, callback={}): {}", m.name(), x0, h, clip, two, dense, !nocb, e)),
    };
    // reference extraction at x0 = 0, h = 1: the weights must not depend on x0, h
    let t0 = match extract(m, 0.0, 1.0, false, false, true) {
        Ok(t) => t,
        Err(e) => return Outcome::viol(format!("{}: {}", m.name(), e)),
    };
    // numeric equality (h < 0 turns structural zeros into -0.0)
    if t.a.iter().zip(&t0.a).any(|(x, y)| x != y) || t.b.iter().zip(&t0.b).any(|(x, y)| x != y) {
        return Outcome::viol(format!("{}: stage weights applied at (x0={}, h={}) differ from those at (0, 1)", m.name(), x0, h));
    }
    let s = t.s;
    let p = order_of(m);
    let all = trees::all_trees(p + 1);
    let counts = [0usize, 1, 1, 2, 4, 9, 20, 48, 115, 286];
    for o in 1..=p + 1 {
        if all[o].len() != counts[o] {
            return Outcome::viol(format!("harness self-test: {} trees of order {} generated, expected {}", all[o].len(), o, counts[o]));
        }
    }
    // row sums
    for i in 0..s {
        let rs: f64 = (0..s).map(|j| t0.a[i * s + j]).sum();
        if (rs - t0.c[i]).abs() > 5e-14 {
            return Outcome::viol(format!("{}: row-sum condition fails at stage {}: c={:e}, sum a_ij={:e}", m.name(), i, t0.c[i], rs));
        }
        let ci = t.c[i];
        if (ci - t0.c[i]).abs() > 8.0 * ulp(x0.abs() + h.abs()) / h.abs() {
            return Outcome::viol(format!("{}: stage {} evaluated at c={:e} for (x0={}, h={}) but c={:e} for (0,1)", m.name(), i, ci, x0, h, t0.c[i]));
        }
    }
    let mut worst: f64 = 0.0;
    let mut ntrees = 0;
    for o in 1..=p {
        for tr in &all[o] {
            let r = trees::residual(tr, &t0.a, &t0.b, s);
            ntrees += 1;
            worst = worst.max(r.abs());
            if r.abs() > 2e-13 {
                return Outcome::viol(format!("{}: order condition of tree {} (order {}) violated by {:e}: the applied weights do not give order {}", m.name(), tr.show(), o, r, p));
            }
        }
    }
    let sharp = all[p + 1].iter().map(|tr| trees::residual(tr, &t0.a, &t0.b, s).abs()).fold(0.0, f64::max);
    if sharp < 1e-6 {
        return Outcome::viol(format!("{}: every order-{} condition holds to {:e}: the advertised order {} is not sharp (harness or tableau inconsistent)", m.name(), p + 1, sharp, p));
    }
    Outcome::pass(format!("{}:tableau", m.name()), true, json!({"trees_checked": ntrees, "worst_residual": worst, "order_p1_defect": sharp, "stages": s, "calls_per_step": t.ncalls}))
}

// ---- one step from exact data -----------------------------------------------------------------
fn one_step(m: Meth, prob: &Prob, x0: f64, h: f64, analytic_jac: bool) -> Option<Vec<f64>> {
    let none: Vec<EvSpec> = vec![];
    let mut instr = Instr::new(prob, &none);
    instr.use_jac = analytic_jac;
    instr.dir = h.signum();
    let y0 = prob.exact(x0);
    let lo = LowOpts { first_step: Some(h), newton_tol: if m == Meth::RADAU { Some(1e-20) } else { None }, newton_maxiter: if m == Meth::RADAU { Some(40) } else { None }, identity_mass: true, ..Default::default() };
    let mut so = RecSolOut::new(vec![]);
    let big = Tol::S(1e3);
    let r = guarded(|| solve_low(m, &instr, x0, x0 + h, &y0, &big, &big, &lo, &mut so)).ok()?.ok()?;
    if r.status != Status::Success || so.recs.len() != 2 || r.steps.rejected != 0 {
        return None;
    }
    Some(so.recs[1].y.clone())
}

/// dense Gaussian elimination with partial pivoting, in place; returns false on a zero pivot
fn gauss_solve(n: usize, a: &mut [f64], b: &mut [f64]) -> bool {
    for k in 0..n {
        let mut m = k;
        for i in k + 1..n {
            if a[i * n + k].abs() > a[m * n + k].abs() {
                m = i;
            }
        }
        if a[m * n + k] == 0.0 {
            return false;
        }
        if m != k {
            for j in 0..n {
                a.swap(m * n + j, k * n + j);
            }
            b.swap(m, k);
        }
        for i in k + 1..n {
            let l = a[i * n + k] / a[k * n + k];
            if l != 0.0 {
                for j in k..n {
                    a[i * n + j] -= l * a[k * n + j];
                }
                b[i] -= l * b[k];
            }
        }
    }
    for k in (0..n).rev() {
        let mut v = b[k];
        for j in k + 1..n {
            v -= a[k * n + j] * b[j];
        }
        b[k] = v / a[k * n + k];
    }
    true
}

/// Solution of the 3-stage Radau IIA collocation equations Z_i = h sum_j a_ij f(x0 + c_j h, y0 + Z_j) by a full Newton
/// iteration (difference-quotient Jacobian of the whole 3n system, iterated to rounding level); returns y0 + Z_3.
fn radau_collocation_step(prob: &Prob, x0: f64, y0: &[f64], h: f64) -> Option<Vec<f64>> {
    let n = y0.len();
    let s6 = 6f64.sqrt();
    let c = [(4.0 - s6) / 10.0, (4.0 + s6) / 10.0, 1.0];
    let a = [
        [(88.0 - 7.0 * s6) / 360.0, (296.0 - 169.0 * s6) / 1800.0, (-2.0 + 3.0 * s6) / 225.0],
        [(296.0 + 169.0 * s6) / 1800.0, (88.0 + 7.0 * s6) / 360.0, (-2.0 - 3.0 * s6) / 225.0],
        [(16.0 - s6) / 36.0, (16.0 + s6) / 36.0, 1.0 / 9.0],
    ];
    let g = |z: &[f64], out: &mut [f64]| {
        let mut fs = vec![vec![0.0; n]; 3];
        let mut yy = vec![0.0; n];
        for j in 0..3 {
            for i in 0..n {
                yy[i] = y0[i] + z[j * n + i];
            }
            crate::instr::Rhs::f(prob, x0 + c[j] * h, &yy, &mut fs[j]);
        }
        for i3 in 0..3 {
            for i in 0..n {
                let mut v = z[i3 * n + i];
                for j in 0..3 {
                    v -= h * a[i3][j] * fs[j][i];
                }
                out[i3 * n + i] = v;
            }
        }
    };
    let m = 3 * n;
    let mut z = vec![0.0; m];
    let mut r = vec![0.0; m];
    let ysc = 1.0 + inf_norm(y0);
    for _it in 0..60 {
        g(&z, &mut r);
        // difference-quotient Jacobian (central)
        let mut jac = vec![0.0; m * m];
        let mut rp = vec![0.0; m];
        let mut rm = vec![0.0; m];
        for q in 0..m {
            let d = 1e-6 * ysc;
            let zq = z[q];
            z[q] = zq + d;
            g(&z, &mut rp);
            z[q] = zq - d;
            g(&z, &mut rm);
            z[q] = zq;
            for p in 0..m {
                jac[p * m + q] = (rp[p] - rm[p]) / (2.0 * d);
            }
        }
        let mut dz: Vec<f64> = r.iter().map(|v| -v).collect();
        if !gauss_solve(m, &mut jac, &mut dz) {
            return None;
        }
        for q in 0..m {
            z[q] += dz[q];
        }
        if !z.iter().all(|v| v.is_finite()) {
            return None;
        }
        if inf_norm(&dz) <= 4.0 * f64::EPSILON * ysc {
            g(&z, &mut r);
            if inf_norm(&r) <= 64.0 * f64::EPSILON * ysc {
                return Some((0..n).map(|i| y0[i] + z[2 * n + i]).collect());
            }
        }
    }
    None
}

fn check_colloc(spec: &ProbSpec, x0: f64, back: bool, hr: f64, analytic_jac: bool, ntol_exp: i32, maxiter: usize) -> Outcome {
    let d = if back { -1.0 } else { 1.0 };
    let prob = Prob::new(spec, x0, x0 + d);
    let rate = prob.rate_t().max(1e-3);
    let h = d * (hr / rate).min(0.25);
    let y0 = prob.exact(x0);
    let none: Vec<EvSpec> = vec![];
    let mut instr = Instr::new(&prob, &none);
    instr.use_jac = analytic_jac;
    instr.dir = d;
    let ntol = 10f64.powi(-ntol_exp);
    let lo = LowOpts { first_step: Some(h), newton_tol: Some(ntol), newton_maxiter: Some(maxiter), identity_mass: true, ..Default::default() };
    let mut so = RecSolOut::new(vec![]);
    let big = Tol::S(1e3);
    let r = match guarded(|| solve_low(Meth::RADAU, &instr, x0, x0 + h, &y0, &big, &big, &lo, &mut so)) {
        Ok(Ok(r)) => r,
        _ => return Outcome::triv("radau-colloc:run-failed"),
    };
    if r.status != Status::Success || so.recs.len() != 2 || r.steps.rejected != 0 {
        return Outcome::triv("radau-colloc:step-not-single");
    }
    let y1 = so.recs[1].y.clone();
    let yref = match radau_collocation_step(&prob, x0, &y0, h) {
        Some(v) => v,
        None => return Outcome::triv("radau-colloc:reference-not-converged"),
    };
    // the solver stops its simplified Newton iteration when the estimated remaining increment, in the norm scaled by
    // atol + rtol|y| = 1e3 (1 + |y|), is below newton_tol <= 1e-17: 1e-14 (1 + |y|) absolute; allow 1e-11
    let ysc = 1.0 + inf_norm(&y0).max(inf_norm(&y1));
    let tol = 1e-11 * ysc;
    let e = max_abs_diff(&y1, &yref);
    let ex = prob.exact(x0 + h);
    let local = max_abs_diff(&yref, &ex);
    if !(e <= tol) {
        return Outcome::viol(format!("RADAU: one step h={:e} from x0={} with newton_tol={:e} ends {:e} from the solution of the Radau IIA collocation equations (allowed {:e}; the collocation solution itself is {:e} from the exact solution): the step taken is not the Radau IIA step (jacobian {}, newton_maxiter {})", h, x0, ntol, e, tol, local, if analytic_jac { "analytic" } else { "finite differences" }, maxiter));
    }
    Outcome::pass(if maxiter < 10 { "RADAU:collocation:small-newton-budget" } else { "RADAU:collocation" }, spec.blocks.iter().any(|b| !matches!(b, Block::Real { .. } | Block::Pair { .. } | Block::Const { .. })), json!({"dist_to_collocation": e, "collocation_local_error": local}))
}

fn check_slope(spec: &ProbSpec, x0: f64, back: bool, m: Meth, analytic_jac: bool) -> Outcome {
    let d = if back { -1.0 } else { 1.0 };
    // the spec lives on [x0, x0 + d]: intrinsic duration theta over a unit interval
    let prob = Prob::new(spec, x0, x0 + d);
    let rate = prob.rate_t().max(1e-3);
    let p = order_of(m);
    // keep the largest step inside the asymptotic range and the smallest above rounding
    // largest step h*rate = 0.3 (0.15 for the low-order methods); high-order methods are refined
    // by sqrt(2) so that five levels stay above the rounding floor
    let (hr0, ratio): (f64, f64) = match m {
        Meth::RK4 | Meth::RK23 => (0.3, 2.0),
        Meth::DOP853 => (1.0, std::f64::consts::SQRT_2),
        Meth::RADAU => (0.35, std::f64::consts::SQRT_2),
        _ => (0.45, std::f64::consts::SQRT_2),
    };
    let h0 = (hr0 / rate).min(0.25);
    let mut lh = vec![];
    let mut le = vec![];
    let mut errs = vec![];
    let mut not_single = 0;
    for j in 0..5 {
        let h = d * h0 / ratio.powi(j);
        let y1 = match one_step(m, &prob, x0, h, analytic_jac) {
            Some(y) => y,
            None => {
                not_single += 1;
                continue;
            }
        };
        let ex = prob.exact(x0 + h);
        let e = max_abs_diff(&y1, &ex);
        let floor = 64.0 * f64::EPSILON * (1.0 + inf_norm(&ex)) + 8.0 * ulp(x0.abs() + 1.0) * rate * inf_norm(&ex);
        errs.push(e);
        if e > 100.0 * floor && e < 1e-2 {
            lh.push(h.abs().log2());
            le.push(e.log2());
        }
    }
    if lh.len() < 3 {
        return Outcome::triv(format!("{}:fewer-than-3-usable-points{}", m.name(), if not_single > 0 { "(step-not-single)" } else { "" }));
    }
    // the asymptotic range is at the small-h end: fit the three smallest usable steps (at larger
    // steps the error can pass through a zero as a function of h)
    let k = lh.len();
    let slope = ls_slope(&lh[k - 3..], &le[k - 3..]);
    // allowances calibrated on the repaired tree (largest deficit seen over 2.4e5 cases:
    // RK4/RK23 0.03, DOPRI5 0.26, Radau 0.36, DOP853 0.96 -- its asymptotic range ends at rounding)
    let need = match m {
        Meth::RK4 | Meth::RK23 => p as f64 + 1.0 - 0.5,
        Meth::DOPRI5 => 6.0 - 0.7,
        Meth::RADAU => 6.0 - 0.8,
        _ => 9.0 - 1.5,
    };
    if slope < need {
        return Outcome::viol(format!("{}: local error slope {:.2} < {:.1} (order {} expected; errors {:?}, h0={:e}, d={})", m.name(), slope, need, p, errs, h0, d));
    }
    Outcome::pass(format!("{}:slope", m.name()), true, json!({"slope": slope, format!("slope_deficit_{}", m.name()): (p as f64 + 1.0) - slope, "points": lh.len()}))
}

fn check_pade(re: f64, im: f64, h: f64, x0: f64, back: bool, u0: [f64; 2]) -> Outcome {
    let d = if back { -1.0 } else { 1.0 };
    // intrinsic time = |t - x0| (theta = 1 over a unit interval, no warp); lambda = z / h
    let spec = ProbSpec { blocks: vec![Block::Pair { a: re / h, b: im / h, u0 }], warp: Warp { theta: 1.0, k: 0, beta: 0.0 }, mix: None, mag2: 0 };
    let prob = Prob::new(&spec, x0, x0 + d);
    let y1 = match one_step(Meth::RADAU, &prob, x0, d * h, true) {
        Some(y) => y,
        None => return Outcome::triv("radau-step-not-single"),
    };
    // R(z) = (1 + 2z/5 + z^2/20) / (1 - 3z/5 + 3z^2/20 - z^3/60), complex arithmetic
    let (zr, zi) = (re, im);
    let z2 = (zr * zr - zi * zi, 2.0 * zr * zi);
    let z3 = (z2.0 * zr - z2.1 * zi, z2.0 * zi + z2.1 * zr);
    let num = (1.0 + 0.4 * zr + z2.0 / 20.0, 0.4 * zi + z2.1 / 20.0);
    let den = (1.0 - 0.6 * zr + 0.15 * z2.0 - z3.0 / 60.0, -0.6 * zi + 0.15 * z2.1 - z3.1 / 60.0);
    let dd = den.0 * den.0 + den.1 * den.1;
    let r = ((num.0 * den.0 + num.1 * den.1) / dd, (num.1 * den.0 - num.0 * den.1) / dd);
    let want = [r.0 * u0[0] - r.1 * u0[1], r.1 * u0[0] + r.0 * u0[1]];
    let rabs = (r.0 * r.0 + r.1 * r.1).sqrt();
    let scale = (u0[0].abs() + u0[1].abs()) * (1.0 + rabs);
    let e = max_abs_diff(&y1, &want);
    if e > 1e-12 * scale * (1.0 + (zr * zr + zi * zi).sqrt()) {
        return Outcome::viol(format!("RADAU: one step on y'=lambda*y with z=h*lambda=({:e},{:e}) gives {:?}, the (2,3) Pade approximant gives {:?} (diff {:e})", zr, zi, y1, want, e));
    }
    Outcome::pass("RADAU:pade", true, json!({"absz": (zr * zr + zi * zi).sqrt(), "pade_defect_rel": e / scale}))
}

fn pade23(zr: f64, zi: f64) -> (f64, f64) {
    let z2 = (zr * zr - zi * zi, 2.0 * zr * zi);
    let z3 = (z2.0 * zr - z2.1 * zi, z2.0 * zi + z2.1 * zr);
    let num = (1.0 + 0.4 * zr + z2.0 / 20.0, 0.4 * zi + z2.1 / 20.0);
    let den = (1.0 - 0.6 * zr + 0.15 * z2.0 - z3.0 / 60.0, -0.6 * zi + 0.15 * z2.1 - z3.1 / 60.0);
    let dd = den.0 * den.0 + den.1 * den.1;
    ((num.0 * den.0 + num.1 * den.1) / dd, (num.1 * den.0 - num.0 * den.1) / dd)
}

/// An ordinary multi-step Radau run (solve_ivp, default controller, analytic Jacobian) on y' = lambda*y: the
/// simplified Newton iteration is exact for a linear problem, so EVERY accepted step -- first, after a
/// rejection, with re-used factors, the last one clipped to land on xend -- must map y_k to R(h_k lambda) y_k.
fn check_pade_run(re: f64, im: f64, mult: f64, e: f64, x0: f64, back: bool, u0: [f64; 2]) -> Outcome {
    let d = if back { -1.0 } else { 1.0 };
    let lam = (re * re + im * im).sqrt().max(0.05);
    let t_len = mult / lam;
    let spec = ProbSpec { blocks: vec![Block::Pair { a: re, b: im, u0 }], warp: Warp { theta: t_len, k: 0, beta: 0.0 }, mix: None, mag2: 0 };
    let xend = x0 + d * t_len;
    let prob = Prob::new(&spec, x0, xend);
    let evs = vec![EvSpec { g: Ev::Const { v: 1.0 }, dir: 0, terminal: None }];
    let mut instr = Instr::new(&prob, &evs);
    instr.use_jac = true;
    instr.dir = d;
    instr.rec_ev = true;
    let rtol = 10f64.powf(-e);
    let o = RunOpts { method: Meth::RADAU, rtol: Tol::S(rtol), atol: Tol::S(rtol * 1e-3), first_step: None, max_step: None, max_steps: None, t_eval: None, dense: false };
    let sol = match solve(&instr, x0, xend, &prob.y0(), &o) {
        RunResult::Ok(s) if s.status == Status::Success => s,
        other => return Outcome::triv(format!("run:{}", other.describe().chars().take(30).collect::<String>())),
    };
    let log = instr.take_log();
    let idx = step_end_calls(&log.ev_t, d);
    let mut worst: f64 = 0.0;
    for w in idx.windows(2) {
        let (t0, t1) = (log.ev_t[w[0]], log.ev_t[w[1]]);
        let (y0, y1) = (&log.ev_y[w[0]], &log.ev_y[w[1]]);
        // the right-hand side is lambda * dtau/dt with dtau/dt = d (intrinsic time runs with |t - x0|)
        let h = (t1 - t0) * d;
        let (zr, zi) = (h * re, h * im);
        let r = pade23(zr, zi);
        let want = [r.0 * y0[0] - r.1 * y0[1], r.1 * y0[0] + r.0 * y0[1]];
        let rabs = (r.0 * r.0 + r.1 * r.1).sqrt();
        let scale = (y0[0].abs() + y0[1].abs()) * (1.0 + rabs) + f64::MIN_POSITIVE;
        let err = max_abs_diff(y1, &want);
        let tol = 1e-11 * scale * (1.0 + (zr * zr + zi * zi).sqrt());
        worst = worst.max(err / tol);
        if err > tol {
            return Outcome::viol(format!(
                "RADAU: accepted step {} of {} (h={:e}, z=h*lambda=({:e},{:e})) of an ordinary run on y'=lambda*y maps {:?} to {:?}, the (2,3) Pade approximant gives {:?} (diff {:e}, allowed {:e})",
                w[0], idx.len() - 1, h, zr, zi, y0, y1, want, err, tol
            ));
        }
    }
    let _ = sol;
    Outcome::pass("RADAU:pade-run", idx.len() >= 4, json!({"steps": idx.len() - 1, "pade_run_defect_over_tol": worst}))
}

// ---- quadrature problems: y' = p'(t) ----------------------------------------------------------
struct QuadRhs {
    x0: f64,
    len: f64,
    coef: Vec<f64>,
    /// amplitude of an initial transient 50 e^{-400 s} sin(2000 s) added to p'(t) (0 = none): it forces step
    /// rejections early in the span and is below an ulp of p' from s = 0.1 on
    trans: f64,
}
impl QuadRhs {
    fn p(&self, t: f64) -> f64 {
        let s = (t - self.x0) / self.len;
        self.coef.iter().rev().fold(0.0, |acc, c| acc * s + c)
    }
}
impl Rhs for QuadRhs {
    fn dim(&self) -> usize {
        1
    }
    fn f(&self, t: f64, _y: &[f64], dy: &mut [f64]) {
        let s = (t - self.x0) / self.len;
        let n = self.coef.len();
        let mut acc = 0.0;
        for k in (1..n).rev() {
            acc = acc * s + (k as f64) * self.coef[k];
        }
        dy[0] = acc / self.len;
        if self.trans != 0.0 {
            dy[0] += self.trans * 50.0 * (-400.0 * s).exp() * (2000.0 * s).sin() / self.len;
        }
    }
}

fn check_quad(m: Meth, deg: usize, coef: &[f64], x0: f64, len: f64, back: bool) -> Outcome {
    let d = if back { -1.0 } else { 1.0 };
    let (dhat, maxfac) = match m {
        Meth::RK23 => (2usize, 10.0),
        Meth::DOPRI5 => (4, 10.0),
        Meth::DOP853 => (5, 6.0),
        _ => return Outcome::triv("n/a"),
    };
    // a quarter of the exact-degree cases start with a fast transient (rejections), after which the solution is the
    // polynomial again: from there on the step must grow by the maximal factor every time
    let trans = if deg <= dhat && coef.len() >= 8 && coef[7] > 1.0 { coef[7] } else { 0.0 };
    let rhs = QuadRhs { x0, len: len * d, coef: coef[..=deg].to_vec(), trans };
    let run = |tol: f64| -> Option<(Vec<f64>, usize, Status)> {
        let evs = vec![EvSpec { g: Ev::Const { v: 1.0 }, dir: 0, terminal: None }];
        let mut instr = Instr::new(&rhs, &evs);
        instr.dir = d;
        instr.rec_ev = true;
        let o = RunOpts { method: m, rtol: Tol::S(tol), atol: Tol::S(tol), first_step: Some(len * 1e-5), max_step: None, max_steps: None, t_eval: None, dense: false };
        match solve(&instr, x0, x0 + d * len, &[rhs.p(x0)], &o) {
            RunResult::Ok(s) => {
                let l = instr.take_log();
                Some((step_end_calls(&l.ev_t, d).into_iter().map(|k| l.ev_t[k]).collect(), s.nrejct, s.status))
            }
            _ => None,
        }
    };
    let (grid, nrej, st) = match run(1e-6) {
        Some(x) => x,
        None => return Outcome::triv("quad-run-failed"),
    };
    if st != Status::Success {
        return Outcome::triv("quad-status");
    }
    let hs: Vec<f64> = grid.windows(2).map(|w| (w[1] - w[0]).abs()).collect();
    if trans != 0.0 {
        // steps that start after s = 0.12 (the transient is below 1e-19 there), the clipped last one excepted
        let mut seen = 0;
        for k in 0..hs.len().saturating_sub(2) {
            let s0 = (grid[k] - x0).abs() / len;
            if s0 < 0.12 {
                continue;
            }
            seen += 1;
            let ratio = hs[k + 1] / hs[k];
            if ratio < 0.9 * maxfac {
                return Outcome::viol(format!(
                    "{}: after an initial transient ({} rejected steps) the solution is a polynomial of degree {} <= {}: the estimate vanishes and the step must grow by {} each time, but the step starting at s={:.3} grew by {:.4} only (last steps {:?})",
                    m.name(), nrej, deg, dhat, maxfac, s0, ratio, &hs[hs.len().saturating_sub(6)..]
                ));
            }
        }
        if hs.len() > 2000 {
            return Outcome::viol(format!("{}: {} accepted steps on a span whose last 70 % is a polynomial of degree {} <= {} (the step never recovered after the transient; {} rejections)", m.name(), hs.len(), deg, dhat, nrej));
        }
        return Outcome::pass(format!("{}:quad-after-transient", m.name()), nrej >= 1, json!({"steps": hs.len(), "deg": deg, "rejected": nrej, "growth_steps_checked": seen}));
    }
    if deg <= dhat {
        // the estimate vanishes: every step grows by the maximal factor until the end of the span
        if nrej != 0 {
            return Outcome::viol(format!("{}: polynomial solution of degree {} (estimate must vanish) but {} steps were rejected", m.name(), deg, nrej));
        }
        for k in 0..hs.len().saturating_sub(2) {
            let ratio = hs[k + 1] / hs[k];
            if (ratio - maxfac).abs() > 1e-9 * maxfac {
                return Outcome::viol(format!("{}: solution is a polynomial of degree {} <= {}: the error estimate must vanish and the step grow by {} each time, but step {} grew by {:.6} (steps {:?})", m.name(), deg, dhat, maxfac, k, ratio, hs));
            }
        }
        Outcome::pass(format!("{}:quad-exact", m.name()), hs.len() >= 4, json!({"steps": hs.len(), "deg": deg}))
    } else {
        // degree dhat+1: the estimate does not vanish: the step size is tolerance limited
        let (g2, _, st2) = match run(1e-9) {
            Some(x) => x,
            None => return Outcome::triv("quad-run-failed"),
        };
        if st2 != Status::Success {
            return Outcome::triv("quad-status");
        }
        let lead = coef[deg].abs();
        if lead < 0.3 {
            return Outcome::triv("small-leading-coefficient");
        }
        // compare the largest steps (the start-up phase from first_step is the same in both runs)
        let h1 = hs.iter().cloned().fold(0.0, f64::max);
        let h2 = g2.windows(2).map(|w| (w[1] - w[0]).abs()).fold(0.0, f64::max);
        if hs.len() < 4 || h1 > 0.45 * len {
            return Outcome::triv("span-too-short-to-be-tolerance-limited");
        }
        if h1 < 1.2 * h2 {
            return Outcome::viol(format!("{}: solution of degree {} = {}+1 should be tolerance limited, but tightening the tolerance 1000x changed the largest step only from {:e} to {:e}", m.name(), deg, dhat, h1, h2));
        }
        Outcome::pass(format!("{}:quad-limited", m.name()), true, json!({"hmax_loose": h1, "hmax_tight": h2, "deg": deg}))
    }
}

fn check_scaling(m: Meth, a: f64, b: f64, theta: f64, x0: f64, back: bool, mag2: i32) -> Outcome {
    let d = if back { -1.0 } else { 1.0 };
    let (q, e_lo, e_hi) = match m {
        Meth::RK23 => (3.0, 4.0, 8.0),
        Meth::DOPRI5 => (5.0, 5.0, 11.0),
        Meth::DOP853 => (8.0, 7.0, 12.5),
        _ => return Outcome::triv("n/a"),
    };
    let spec = ProbSpec { blocks: vec![Block::Pair { a, b, u0: [1.0, 0.3] }, Block::Real { lam: -0.2, u0: 0.7 }], warp: Warp { theta, k: 0, beta: 0.0 }, mix: None, mag2 };
    let prob = Prob::new(&spec, x0, x0 + d * theta);
    let none: Vec<EvSpec> = vec![];
    let mut xs = vec![];
    let mut ys = vec![];
    let mut ns = vec![];
    let mut e = e_lo;
    while e <= e_hi + 1e-9 {
        let tol = 10f64.powf(-e);
        let instr = Instr::new(&prob, &none);
        // the state is in units of 2^mag2: the absolute tolerance is in the same units (an exact change of units)
        let o = RunOpts::basic(m, tol, tol * prob.mag);
        match solve(&instr, prob.x0, prob.xend, &prob.y0(), &o) {
            RunResult::Ok(s) if s.status == Status::Success => {
                ns.push(s.naccpt);
                if s.naccpt >= 30 {
                    xs.push(e * std::f64::consts::LN_10);
                    ys.push((s.naccpt as f64).ln());
                }
            }
            _ => {}
        }
        e += 0.5;
    }
    if xs.len() < 5 {
        return Outcome::triv("too-few-points-with-30-steps");
    }
    let slope = ls_slope(&xs, &ys); // d ln N / d ln(1/tol)
    if slope < 0.8 / q || slope > 1.35 / q {
        return Outcome::viol(format!("{}: accepted steps grow like tol^(-{:.3}), expected about tol^(-1/{}) = tol^(-{:.3}) (allowed [{:.3},{:.3}]); steps {:?}; state in units of 2^{}", m.name(), slope, q, 1.0 / q, 0.8 / q, 1.35 / q, ns, mag2));
    }
    Outcome::pass(format!("{}:scaling", m.name()), true, json!({"exponent_times_q": slope * q, "points": xs.len()}))
}

pub fn check(c: &Case) -> Outcome {
    match c {
        Case::Tableau { method, xs, hk, neg, clip, two, dense, nocb } => check_tableau(*method, *xs, *hk, *neg, *clip, *two, *dense, *nocb),
        Case::Slope { prob, x0, back, method, analytic_jac } => check_slope(prob, *x0, *back, *method, *analytic_jac),
        Case::Pade { re, im, h, x0, back, u0 } => check_pade(*re, *im, *h, *x0, *back, *u0),
        Case::PadeRun { re, im, mult, e, x0, back, u0 } => check_pade_run(*re, *im, *mult, *e, *x0, *back, *u0),
        Case::Quad { method, deg, coef, x0, len, back } => check_quad(*method, *deg, coef, *x0, *len, *back),
        Case::Scaling { method, a, b, theta, x0, back, mag2 } => check_scaling(*method, *a, *b, *theta, *x0, *back, *mag2),
        Case::XOut(x) => crate::xoutrel::check(x, crate::xoutrel::Aspect::Steps),
        Case::Colloc { prob, x0, back, hr, analytic_jac, ntol_exp, maxiter } => check_colloc(prob, *x0, *back, *hr, *analytic_jac, *ntol_exp, maxiter.unwrap_or(40)),
    }
}

pub fn strategy() -> BoxedStrategy<Case> {
    let expl = prop_oneof![Just(Meth::RK4), Just(Meth::RK23), Just(Meth::DOPRI5), Just(Meth::DOP853)];
    let emb = prop_oneof![Just(Meth::RK23), Just(Meth::DOPRI5), Just(Meth::DOP853)];
    let five = prop_oneof![Just(Meth::RK4), Just(Meth::RK23), Just(Meth::DOPRI5), Just(Meth::DOP853), Just(Meth::RADAU)];
    prop_oneof![
        2 => (expl, -800i32..800, -8i32..=3, any::<bool>(), any::<bool>(), any::<bool>(), any::<bool>(), proptest::bool::weighted(0.3)).prop_map(|(method, xs, hk, neg, clip, two, dense, nocb)| Case::Tableau { method, xs, hk, neg, clip: clip && !two, two, dense, nocb }),
        6 => (linear_spec(3, false, 0.5, 3.0), fr(-2.0, 2.0), any::<bool>(), five, any::<bool>()).prop_map(|(mut prob, x0, back, method, analytic_jac)| {
            // slopes are measured on the un-mixed problem or a mildly mixed one; Radau needs the analytic Jacobian
            if prob.blocks.len() > 2 { prob.blocks.truncate(2); }
            // the rounding floor is reached before a non-autonomous problem's asymptotic range
            // (h*omega << 1): slopes are measured on autonomous linear problems; all other
            // elementary differentials are covered exhaustively by the tree conditions
            prob.warp.k = 0;
            let analytic_jac = analytic_jac || method == Meth::RADAU;
            Case::Slope { prob, x0, back, method, analytic_jac }
        }),
        // Radau on NONLINEAR problems (logistic, tan, reciprocal, cubic, limit cycle; non-autonomous through the time warp):
        // one step against the harness's own solution of the collocation equations.  This is where the simplified
        // Newton iteration matters (on linear problems one iteration is exact).
        3 => (prob_spec(3, 0.5, 3.0), fr(-2.0, 2.0), any::<bool>(), fr(0.02, 0.35), any::<bool>(), 17i32..=20, prop_oneof![4 => Just(40usize), 1 => Just(1usize), 1 => Just(2usize), 1 => Just(3usize), 1 => Just(7usize)]).prop_map(|(mut prob, x0, back, hr, analytic_jac, ntol_exp, maxiter)| {
            if prob.blocks.len() > 2 { prob.blocks.truncate(2); }
            // (with a budget of 1..7 iterations the step is accepted only if the iteration really converged within it;
            // otherwise it is rejected and the case is trivial)
            Case::Colloc { prob, x0, back, hr, analytic_jac, ntol_exp, maxiter: Some(maxiter) }
        }),
        3 => (fr(-20.0, 1.0), fr(-20.0, 20.0), fr(0.05, 1.0), fr(-5.0, 5.0), any::<bool>(), fr(0.3, 2.0), fr(-2.0, 2.0)).prop_map(|(re, im, h, x0, back, u, v)| {
            // |z| <= 20
            let n = (re * re + im * im).sqrt();
            let (re, im) = if n > 20.0 { (re * 20.0 / n, im * 20.0 / n) } else { (re, im) };
            Case::Pade { re, im, h, x0, back, u0: [u, v] }
        }),
        3 => (fr(-20.0, 0.5), fr(-20.0, 20.0), fr(2.0, 60.0), fr(3.0, 8.0), fr(-5.0, 5.0), any::<bool>(), fr(0.3, 2.0), fr(-2.0, 2.0)).prop_map(|(re, im, mult, e, x0, back, u, v)| Case::PadeRun { re, im, mult, e, x0, back, u0: [u, v] }),
        3 => (emb.clone(), 0usize..=6, proptest::collection::vec(fr(-2.0, 2.0), 8..=8), fr(-50.0, 50.0), fr(0.5, 20.0), any::<bool>()).prop_map(|(method, dd, coef, x0, len, back)| {
            let dhat = match method { Meth::RK23 => 2, Meth::DOPRI5 => 4, _ => 5 };
            let deg = if dd % 3 == 0 { dhat + 1 } else { 1 + dd % dhat.max(1) + if dd > 3 { 0 } else { 0 } };
            let deg = deg.min(dhat + 1).max(1);
            Case::Quad { method, deg, coef, x0, len, back }
        }),
        1 => (emb, fr(-0.15, 0.02), fr(2.0, 5.0), fr(10.0, 25.0), fr(-10.0, 10.0), any::<bool>(), prop_oneof![2 => Just(0i32), 1 => -100i32..=100, 1 => Just(-60i32)]).prop_map(|(method, a, b, theta, x0, back, mag2)| Case::Scaling { method, a, b, theta, x0, back, mag2 }),
        2 => crate::xoutrel::strategy().prop_map(Case::XOut),
    ]
    .boxed()
}

pub fn exhaustive() -> Vec<Case> {
    let mut v = vec![];
    for m in [Meth::RK4, Meth::RK23, Meth::DOPRI5, Meth::DOP853] {
        for neg in [false, true] {
            for (clip, two, dense) in [(false, false, true), (true, false, true), (false, true, true), (false, true, false), (false, false, false)] {
                v.push(Case::Tableau { method: m, xs: 0, hk: 0, neg, clip, two, dense, nocb: false });
                if two {
                    v.push(Case::Tableau { method: m, xs: 0, hk: 0, neg, clip, two, dense, nocb: true });
                }
            }
        }
    }
    v
}

pub fn run(ctx: &Ctx, known: &[Known]) -> Report {
    let cases = match ctx.tier {
        Tier::Quick => 12_000,
        Tier::Thorough => 400_000,
    };
    let ex = exhaustive();
    let mut stats = run_list(&ex, &check, known);
    stats.exhaustive_part = Some(json!({"what": "for RK4, RK23, DOPRI5, DOP853 and both signs of h: the Butcher weights actually applied by the compiled code (extracted with a unit-vector right-hand side) against every rooted tree up to the advertised order (8, 7... 200 trees for DOP853), row sums, and sharpness at order p+1", "cases": ex.len()}));
    if stats.violation.is_none() {
        let s2 = run_generated(ctx, "C02", "gen", &strategy, &check, cases, known);
        merge(&mut stats, s2);
    }
    Report {
        id: "C02".into(),
        rule: "seven kinds of cases: (0b) one Radau step on a nonlinear closed-form problem with newton_tol 1e-17..1e-20 against the harness's own Newton solution of the three-stage Radau IIA collocation equations (agreement to 1e-11 (1+|y|)); (0) low-level runs whose SolOut callback answers ControlFlag::XOut at generated callbacks (or prints equidistantly), dense_output default/true/false: every accepted step (xold, x, y) is bit-identical to the run whose callback answers Continue, i.e. the step after an XOut answer is still the method's step from (x, y); (1) tableau extraction at generated (x0 = k/8, h = +-2^j) with all rooted-tree order conditions up to p (exhaustive over trees; also run once per method and sign of h as the exhaustive part), (2) local-error slope (three smallest usable of five refinements) of one step from exact data of an autonomous linear closed-form problem (RK4, RK23, DOPRI5, DOP853, Radau with fully converged Newton), (3) one Radau step on y'=lambda*y, z=h*lambda in |z|<=20 (complex via the 2x2 rotation-scaling system) against the (2,3) Pade approximant, and every accepted step of ordinary multi-step Radau runs on y'=lambda*y (analytic Jacobian: the simplified Newton iteration is exact, so steps after rejections, with re-used factors and the clipped last step must all be Radau IIA steps, to 1e-11), (4) pure quadrature y'=p'(t) of degree <= d^ (estimate must vanish: every step grows by exactly the maximal factor; a quarter of these start with a fast transient that forces rejections, after which the growth must resume) and d^+1 (tolerance limited), (5) accepted steps vs tolerance exponent within [0.8/q, 1.35/q]. Non-trivial = the sub-check produced a verdict from a usable measurement (>= 3 slope points, >= 4 steps, >= 5 tolerance points with >= 30 steps). Distinct = distinct canonical JSON.".into(),
        assumptions: vec![
            "slope thresholds: RK4 4.5, RK23 3.5, DOPRI5 5.3, Radau 5.2, DOP853 7.5 (calibrated, see source); the decisive checks are the tree conditions (explicit methods) and the Pade approximant (Radau)".into(),
            "tree residual tolerance 2e-13, row sums 5e-14".into(),
        ],
        min_nontrivial_frac: 0.5,
        stats,
        exhaustive: false,
    }
}
