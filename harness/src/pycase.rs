//! `vf pycase`: persistent child process for the C20 (Python binding) differential check.
//! Reads one JSON case per line on stdin, solves it with the Rust `solve_ivp`, and writes one JSON
//! line with every f64 encoded as its 16-hex-digit bit pattern.

use crate::instr::Rhs;
use ivp::prelude::*;
use serde::Deserialize;
use serde_json::{json, Value};
use std::io::{BufRead, Write};
use std::panic::{catch_unwind, AssertUnwindSafe};

#[derive(Deserialize, Clone, Debug)]
pub struct PyEvent {
    pub a: Vec<f64>,
    pub bt: f64,
    pub c: f64,
    pub terminal: bool,
    pub direction: i32,
}

#[derive(Deserialize, Clone, Debug)]
pub struct PyCase {
    /// "lin": dy_i = s*(sum_j A_ij y_j + b_i t); "lv": dy_i = s*(y_i (r_i + sum_j C_ij y_j)); "rat": dy_i = s*((a_i + b_i y_i)/(1 + y_i y_i) + c_i t)
    pub kind: String,
    pub n: usize,
    pub mat: Vec<Vec<f64>>,
    pub v1: Vec<f64>,
    pub v2: Vec<f64>,
    /// extra argument (1.0 when args are not used)
    pub s: f64,
    /// truncate the derivative to integers (the Python side returns an integer ndarray)
    pub int_ret: bool,
    pub t0: f64,
    pub tf: f64,
    pub y0: Vec<f64>,
    pub method: String,
    pub rtol: Vec<f64>,
    pub rtol_scalar: bool,
    pub atol: Vec<f64>,
    pub atol_scalar: bool,
    pub first_step: Option<f64>,
    pub max_step: Option<f64>,
    pub min_step: Option<f64>,
    pub max_steps: Option<usize>,
    pub t_eval: Option<Vec<f64>>,
    pub dense_output: bool,
    pub events: Vec<PyEvent>,
    /// analytic Jacobian supplied on the Python side (callable or constant): linear kind only
    pub user_jac: bool,
    pub queries: Vec<f64>,
}

struct PyRhs<'a>(&'a PyCase);

impl<'a> PyRhs<'a> {
    fn eval(&self, t: f64, y: &[f64], dy: &mut [f64]) {
        let c = self.0;
        let n = c.n;
        for i in 0..n {
            let v = match c.kind.as_str() {
                "lin" => {
                    let mut acc = 0.0;
                    for j in 0..n {
                        acc = acc + c.mat[i][j] * y[j];
                    }
                    acc = acc + c.v1[i] * t;
                    c.s * acc
                }
                "lv" => {
                    let mut acc = c.v1[i];
                    for j in 0..n {
                        acc = acc + c.mat[i][j] * y[j];
                    }
                    c.s * (y[i] * acc)
                }
                _ => {
                    let q = (c.v1[i] + c.v2[i] * y[i]) / (1.0 + y[i] * y[i]);
                    c.s * (q + c.mat[i][0] * t)
                }
            };
            dy[i] = if c.int_ret { (v.clamp(-4.0e18, 4.0e18) as i64) as f64 } else { v };
        }
    }
}

impl<'a> Rhs for PyRhs<'a> {
    fn dim(&self) -> usize {
        self.0.n
    }
    fn f(&self, t: f64, y: &[f64], dy: &mut [f64]) {
        self.eval(t, y, dy)
    }
}

struct PyIvp<'a> {
    c: &'a PyCase,
    rhs: PyRhs<'a>,
}

/// adapter without a `jac` override: the crate's default finite differences
struct Plain<'b, 'a>(&'b PyIvp<'a>);
impl<'b, 'a> IVP for Plain<'b, 'a> {
    fn ode(&self, x: f64, y: &[f64], d: &mut [f64]) {
        self.0.rhs.eval(x, y, d)
    }
}

impl<'a> IVP for PyIvp<'a> {
    fn ode(&self, x: f64, y: &[f64], d: &mut [f64]) {
        self.rhs.eval(x, y, d)
    }
    fn n_events(&self) -> usize {
        self.c.events.len()
    }
    fn events(&self, x: f64, y: &[f64], out: &mut [f64]) {
        for (o, e) in out.iter_mut().zip(&self.c.events) {
            let mut acc = 0.0;
            for j in 0..self.c.n {
                acc = acc + e.a[j] * y[j];
            }
            *o = (acc + e.bt * x) - e.c * self.c.s;
        }
    }
    fn event_config(&self, i: usize) -> EventConfig {
        let mut cfg = EventConfig::new();
        cfg.direction(Direction::from(self.c.events[i].direction));
        if self.c.events[i].terminal {
            cfg.terminal();
        }
        cfg
    }
    fn jac(&self, x: f64, y: &[f64], j: &mut Matrix) {
        if self.c.user_jac {
            let n = self.c.n;
            for r in 0..n {
                for q in 0..n {
                    j[(r, q)] = self.c.s * self.c.mat[r][q];
                }
            }
        } else {
            IVP::jac(&Plain(self), x, y, j);
        }
    }
}

fn hx(v: f64) -> String {
    format!("{:016x}", v.to_bits())
}
fn hxv(v: &[f64]) -> Vec<String> {
    v.iter().map(|x| hx(*x)).collect()
}

pub fn solve_case(c: &PyCase) -> Value {
    let ivp = PyIvp { c, rhs: PyRhs(c) };
    let rtol: ivp::methods::Tolerance = if c.rtol_scalar { ivp::methods::Tolerance::Scalar(c.rtol[0]) } else { ivp::methods::Tolerance::Vector(c.rtol.clone()) };
    let atol: ivp::methods::Tolerance = if c.atol_scalar { ivp::methods::Tolerance::Scalar(c.atol[0]) } else { ivp::methods::Tolerance::Vector(c.atol.clone()) };
    let opts = Options::builder()
        .method(Method::from(c.method.as_str()))
        .dense_output(c.dense_output)
        .maybe_t_eval(c.t_eval.clone())
        .maybe_max_step(c.max_step)
        .maybe_min_step(c.min_step)
        .maybe_first_step(c.first_step)
        .maybe_max_steps(c.max_steps)
        .rtol(rtol)
        .atol(atol)
        .build();
    let r = catch_unwind(AssertUnwindSafe(|| solve_ivp(&ivp, c.t0, c.tf, &c.y0, opts)));
    match r {
        Err(p) => json!({"panic": crate::util::panic_msg(&p)}),
        Ok(Err(e)) => json!({"err": format!("{:?}", e)}),
        Ok(Ok(s)) => {
            let status = match s.status {
                Status::Success => 0,
                Status::UserInterrupt => 1,
                _ => -1,
            };
            let mut sols = vec![];
            if c.dense_output {
                for q in &c.queries {
                    match s.sol(*q) {
                        Ok(v) => sols.push(json!(hxv(&v))),
                        Err(_) => sols.push(Value::Null),
                    }
                }
            }
            json!({
                "t": hxv(&s.t),
                "y": s.y.iter().map(|v| hxv(v)).collect::<Vec<_>>(),
                "t_events": s.t_events.iter().map(|v| hxv(v)).collect::<Vec<_>>(),
                "y_events": s.y_events.iter().map(|e| e.iter().map(|v| hxv(v)).collect::<Vec<_>>()).collect::<Vec<_>>(),
                "nfev": s.nfev, "njev": s.njev, "nlu": s.nlu,
                "status": status,
                "status_name": format!("{:?}", s.status),
                "sol": sols,
                "sol_span": s.sol_span().map(|(a, b)| vec![hx(a), hx(b)]),
            })
        }
    }
}

pub fn serve() -> i32 {
    let stdin = std::io::stdin();
    let stdout = std::io::stdout();
    for line in stdin.lock().lines() {
        let line = match line {
            Ok(l) => l,
            Err(_) => break,
        };
        if line.trim().is_empty() {
            continue;
        }
        let out = match serde_json::from_str::<PyCase>(&line) {
            Ok(c) => solve_case(&c),
            Err(e) => json!({"bad_case": format!("{}", e)}),
        };
        let mut o = stdout.lock();
        let _ = writeln!(o, "{}", out);
        let _ = o.flush();
    }
    0
}
