#!/usr/bin/env bash
# ./run_c20.sh <tier> [--replay file]   (called by /verif/check after the harness has been built)
set -u
HERE="$(cd "$(dirname "$0")" && pwd)"
VERIF_DIR="$(dirname "$HERE")"
tier="${1:-quick}"; shift || true
export CARGO_NET_OFFLINE=true
mkdir -p "$HERE/build"
# rebuild the extension module from /repo's current working tree (own target dir, nothing is written to /repo)
( cd "${VERIF_REPO:-/repo}" && cargo build --features python --lib --offline --target-dir "$HERE/build/target" >"$HERE/build/build.log" 2>&1 )
if [ $? -ne 0 ]; then echo "BUILD-FAILED property=C20 (python extension; see py/build/build.log)"; tail -15 "$HERE/build/build.log"; exit 2; fi
cp "$HERE/build/target/debug/libivp.so" "$HERE/build/ivp.abi3.so" || { echo "INCONCLUSIVE property=C20 extension module not produced"; exit 2; }
PY=python3-vt
command -v $PY >/dev/null 2>&1 || { echo "INCONCLUSIVE property=C20 python3-vt not available"; exit 2; }
if [ "$tier" = thorough ]; then limit=14400; else limit=1800; fi
PYTHONPATH="$HERE/build" VERIF_DIR="$VERIF_DIR" timeout -k 10 "$limit" $PY "$HERE/c20_check.py" --tier "$tier" "$@"
rc=$?
if [ $rc -eq 124 ] || [ $rc -eq 137 ]; then echo "INCONCLUSIVE property=C20 watchdog expired"; exit 2; fi
if [ $rc -ne 0 ] && [ $rc -ne 1 ]; then exit 2; fi
exit $rc
