//! C01 — Tolerance-controlled accuracy of every returned sample.

use crate::engine::*;
use crate::gen::*;
use crate::instr::*;
use crate::problems::*;
use crate::run::*;
use crate::util::*;
use ivp::prelude::{Solution, Status};
use proptest::prelude::*;
use serde::{Deserialize, Serialize};
use serde_json::json;

/// "modest multiple": largest ratio err/(kappa*naccpt*tolscale) observed over 2.4e5 generated
/// cases on the repaired tree: typically below 0.2, but with a heavy tail (vanishing error estimates,
/// lower-order dense output): 49 over 6e6 cases, beyond that the events are diagnosed as K1-K3
pub const C_BOUND: f64 = 100.0;

#[derive(Serialize, Deserialize, Clone, Debug)]
pub enum TolMode {
    /// rtol, atol = rtol * q_j (scalar or per component)
    Mixed,
    /// rtol = 0, atol only
    PureAbs,
    /// atol = 0 (solution bounded away from zero)
    PureRel,
    /// tiny non-zero rtol (1e-5 of the level), per-component atol spread over 6 decades:
    /// the absolute tolerance dominates, which pins its indexing on code paths that need rtol > 0
    AbsDom,
}

#[derive(Serialize, Deserialize, Clone, Debug)]
pub struct Case {
    pub prob: ProbSpec,
    pub span: Span,
    pub method: Meth,
    /// loosest rung: rtol = 10^-e
    pub e: f64,
    pub rtol_vec: Option<Vec<f64>>,
    pub atol_q: Vec<f64>,
    pub atol_vector: bool,
    pub mode: TolMode,
    pub t_eval: Option<Vec<f64>>,
    pub analytic_jac: bool,
    /// RK4: number of steps at the coarsest level
    pub rk4_steps: u32,
    /// RK4: the step is span/(steps + frac): for frac > 0 the last step is clipped
    pub rk4_frac: f64,
    /// AbsDom only: add an identically-zero component (first = 1 / last = 2) with the loose
    /// absolute tolerance 1e-2 while the other components keep theirs: pins tolerance indexing
    #[serde(default)]
    pub dummy: u8,
    /// random dissipative vector field checked against the harness's reference integrator
    /// (replaces `prob`; intrinsic duration = prob.warp.theta)
    #[serde(default)]
    pub field: Option<crate::field::FieldSpec>,
}

fn run_one(c: &Case, prob: &Prob, rtol: Tol, atol: Tol, first_step: Option<f64>) -> Result<Solution, String> {
    run_one_rec(c, prob, rtol, atol, first_step, false).map(|(s, _)| s)
}

/// whether the solver really evaluated the right-hand side at (32 ulps around) the reported step end `s.t[i]`: every
/// adaptive method here has a stage at the new point (FSAL / c = 1 / the BDF and Radau corrector), so a reported "step"
/// without one is a mislabelled state, not an accepted step (e.g. a short retry step reported at xend) -- and never K1
fn genuine_step(s: &Solution, times: &[f64], i: usize) -> bool {
    let x = s.t[i];
    let u = 32.0 * ulp(x.abs().max(s.t[i - 1].abs()));
    times.iter().any(|t| (t - x).abs() <= u)
}

/// For the explicit pairs: is the reported step i really ONE accepted step of the method?  Re-run it alone: from the
/// reported (x_{i-1}, y_{i-1}) with first_step = x_i - x_{i-1} to x_i under the same tolerances.  K1 means that this single
/// step passes the error test although its error is large; if it is rejected, the reported state at x_i is not the result of
/// that step (e.g. the state of a shorter retry step labelled xend) and the violation is not K1's.
fn confirm_step(c: &Case, prob: &Prob, rtol: &Tol, atol: &Tol, s: &Solution, i: usize) -> bool {
    if !matches!(c.method, Meth::RK23 | Meth::DOPRI5 | Meth::DOP853) {
        return true;
    }
    let none: Vec<EvSpec> = vec![];
    let mut instr = Instr::new(prob, &none);
    instr.dir = c.span.dir();
    let o = RunOpts { method: c.method, rtol: rtol.clone(), atol: atol.clone(), first_step: Some(s.t[i] - s.t[i - 1]), max_step: None, max_steps: Some(4), t_eval: None, dense: false };
    match solve(&instr, s.t[i - 1], s.t[i], &s.y[i - 1], &o) {
        RunResult::Ok(r) => r.status == Status::Success && r.naccpt == 1 && r.nrejct == 0 && r.y.last().map_or(false, |y| max_abs_diff(y, &s.y[i]) <= 1e-9 * (1.0 + inf_norm(&s.y[i]))),
        _ => false,
    }
}

/// the run, and (if `rec`) the times of all right-hand-side evaluations outside Jacobian differencing
fn run_one_rec(c: &Case, prob: &Prob, rtol: Tol, atol: Tol, first_step: Option<f64>, rec: bool) -> Result<(Solution, Vec<f64>), String> {
    let sp = &c.span;
    let none: Vec<EvSpec> = vec![];
    let mut instr = Instr::new(prob, &none);
    instr.rec_ode = rec;
    instr.dir = sp.dir();
    instr.use_jac = c.analytic_jac;
    // RK4's convergence order is measured at the step ends (the interpolant's order is C07's subject:
    // at a fixed time the Hermite error depends on the position inside the step, which changes under refinement)
    let t_eval = if c.method == Meth::RK4 { None } else { c.t_eval.as_ref().map(|f| fracs_to_times(sp, f)) };
    let o = RunOpts { method: c.method, rtol, atol, first_step, max_step: None, max_steps: None, t_eval, dense: false };
    match solve(&instr, sp.x0, sp.xend, &prob.y0(), &o) {
        RunResult::Ok(s) => {
            let times = instr.take_log().ode_t;
            Ok((s, times))
        }
        other => Err(other.describe()),
    }
}

/// (max error over samples, max per-component errors, max |y| per component)
fn errors(prob: &Prob, s: &Solution) -> (f64, Vec<f64>, Vec<f64>) {
    let n = prob.n;
    let mut emax = 0.0f64;
    let mut ec = vec![0.0f64; n];
    let mut ym = vec![0.0f64; n];
    for (t, y) in s.t.iter().zip(&s.y) {
        let ex = prob.exact(*t);
        for j in 0..n {
            let e = (y[j] - ex[j]).abs();
            ec[j] = ec[j].max(e);
            emax = emax.max(e);
            ym[j] = ym[j].max(ex[j].abs());
        }
    }
    (emax, ec, ym)
}


/// Diagnosis of a bound violation: is it attributable to ONE over-long accepted step?  (The
/// embedded error estimate of every method has isolated zeros as a function of the step size;
/// when the controller happens to land on one, the estimate is ~0, the next step is grown by the
/// maximal factor and may be accepted with a local error far above the tolerance.  SciPy's DOP853
/// accepts the very same step -- see DESIGN.md section 5, finding K1.)  Signature: in the run without
/// t_eval the error first exceeds `bound` at an accepted step that is at least 2.5 times longer than
/// its predecessor, and the error before that step was below 10 % of the bound.
fn single_overlong_step(c: &Case, prob: &Prob, rtol: Tol, atol: Tol, bound: f64, comp: Option<usize>) -> bool {
    let dist = |y: &[f64], ex: &[f64]| match comp {
        Some(j) => (y[j] - ex[j]).abs(),
        None => max_abs_diff(y, ex),
    };
    let mut c2 = c.clone();
    c2.t_eval = None;
    let (s, times) = match run_one_rec(&c2, prob, rtol.clone(), atol.clone(), None, true) {
        Ok(s) => s,
        Err(_) => return false,
    };
    let mut prev_err = 0.0f64;
    for i in 0..s.t.len() {
        let e = dist(&s.y[i], &prob.exact(s.t[i]));
        if e > bound {
            if i >= 1 && !(genuine_step(&s, &times, i) && confirm_step(c, prob, &rtol, &atol, &s, i)) {
                return false;
            }
            if i == 1 {
                // first-step variant: there is no predecessor to compare with; the step chosen by the automatic
                // initial-step heuristic lies outside the asymptotic range (h * rate > 1) and is accepted because the
                // estimate vanishes there (SciPy's RK45 accepts the same first step with the same error when given it)
                return c.method != Meth::RK4 && prob.rate_t() * (s.t[1] - s.t[0]).abs() > 1.0;
            }
            if i < 2 {
                return false;
            }
            let h = (s.t[i] - s.t[i - 1]).abs();
            // "its predecessor": the shorter of the two steps before it (the controller sometimes needs two steps to
            // reach the over-long one: 0.29 -> 0.67 -> 1.57 with the error jumping from 0.1 % to 440 % of the bound)
            let mut hp = (s.t[i - 1] - s.t[i - 2]).abs();
            if i >= 3 {
                hp = hp.min((s.t[i - 2] - s.t[i - 3]).abs());
            }
            if std::env::var_os("VF_C01_DIAG").is_some() {
                eprintln!("C01-DIAG {} step {} of {}: h/hp = {:.3}, err_before/bound = {:.4}, err/bound = {:.2}", c.method.name(), i, s.t.len() - 1, h / hp, prev_err / bound, e / bound);
            }
            return h >= 2.5 * hp && prev_err <= 0.1 * bound;
        }
        prev_err = e;
    }
    false
}

/// The same mechanism in its diffuse form: the error does not cross the bound at the over-long step itself
/// (it was not small before it, or it crosses a few steps later), but one accepted step that is at least
/// 2.5 times longer than its predecessor contributes more than half of the bound on its own.
fn overlong_step_dominates(c: &Case, prob: &Prob, rtol: Tol, atol: Tol, bound: f64, comp: Option<usize>) -> bool {
    let dist = |y: &[f64], ex: &[f64]| match comp {
        Some(j) => (y[j] - ex[j]).abs(),
        None => max_abs_diff(y, ex),
    };
    let mut c2 = c.clone();
    c2.t_eval = None;
    let (s, times) = match run_one_rec(&c2, prob, rtol.clone(), atol.clone(), None, true) {
        Ok(s) => s,
        Err(_) => return false,
    };
    let e: Vec<f64> = (0..s.t.len()).map(|i| dist(&s.y[i], &prob.exact(s.t[i]))).collect();
    if !e.iter().any(|v| *v > bound) {
        return false;
    }
    if c.method != Meth::RK4 && s.t.len() > 1 && prob.rate_t() * (s.t[1] - s.t[0]).abs() > 1.0 && e[1] >= 0.5 * bound && genuine_step(&s, &times, 1) && confirm_step(c, prob, &rtol, &atol, &s, 1) {
        return true;
    }
    (2..s.t.len()).any(|i| {
        if !genuine_step(&s, &times, i) {
            return false;
        }
        let h = (s.t[i] - s.t[i - 1]).abs();
        let mut hp = (s.t[i - 1] - s.t[i - 2]).abs();
        if i >= 3 {
            hp = hp.min((s.t[i - 2] - s.t[i - 3]).abs());
        }
        h >= 2.5 * hp && e[i] - e[i - 1] >= 0.5 * bound && confirm_step(c, prob, &rtol, &atol, &s, i)
    })
}

/// Second diagnosis: the bound is violated only at a requested output time inside a step that is
/// long compared with the solution's time scale (h * rate > 1), while every accepted-step end point
/// satisfies the bound.  The interpolants are of lower order than the step and are not error
/// controlled; outside the asymptotic range their error can exceed the tolerance (SciPy's dense
/// output behaves the same).  DESIGN.md section 5, finding K2.
fn coarse_step_interpolation(c: &Case, prob: &Prob, rtol: Tol, atol: Tol, bound: f64, s_with: &Solution, comp: Option<usize>) -> bool {
    let dist = |y: &[f64], ex: &[f64]| match comp {
        Some(j) => (y[j] - ex[j]).abs(),
        None => max_abs_diff(y, ex),
    };
    if c.t_eval.is_none() {
        return false;
    }
    let mut c2 = c.clone();
    c2.t_eval = None;
    let s = match run_one(&c2, prob, rtol, atol, None) {
        Ok(s) => s,
        Err(_) => return false,
    };
    for i in 0..s.t.len() {
        if dist(&s.y[i], &prob.exact(s.t[i])) > bound {
            return false;
        }
    }
    let d = c.span.dir();
    let rate = prob.rate_t();
    // every violating requested time must sit strictly inside a coarse step
    for (t, y) in s_with.t.iter().zip(&s_with.y) {
        if dist(y, &prob.exact(*t)) > bound {
            let mut ok = false;
            for w in s.t.windows(2) {
                if (t - w[0]) * d > 0.0 && (w[1] - t) * d > 0.0 && rate * (w[1] - w[0]).abs() > 1.0 {
                    ok = true;
                }
            }
            if !ok {
                return false;
            }
        }
    }
    true
}

/// K1/K2 diagnoses for a problem given by closures (used by the random-field family, whose exact
/// solution is the reference integrator): `run_plain` = the same run without t_eval, `exact_at` = exact
/// states at a list of times in integration order.
fn diagnose_generic(run_plain: &dyn Fn() -> Option<Solution>, exact_at: &dyn Fn(&[f64]) -> Option<Vec<Vec<f64>>>, s_with: &Solution, has_t_eval: bool, d: f64, rate: f64, bound: f64) -> &'static str {
    let s = match run_plain() {
        Some(s) => s,
        None => return "",
    };
    let ex = match exact_at(&s.t) {
        Some(e) => e,
        None => return "",
    };
    let errs: Vec<f64> = s.y.iter().zip(&ex).map(|(a, b)| max_abs_diff(a, b)).collect();
    // K1: first violation at a step at least 2.5x its predecessor, error before it small
    if let Some(i) = errs.iter().position(|e| *e > bound) {
        if i == 1 && rate * (s.t[1] - s.t[0]).abs() > 1.0 {
            return "C01-overlong-step";
        }
        if i >= 2 {
            let h = (s.t[i] - s.t[i - 1]).abs();
            let mut hp = (s.t[i - 1] - s.t[i - 2]).abs();
            if i >= 3 {
                hp = hp.min((s.t[i - 2] - s.t[i - 3]).abs());
            }
            if h >= 2.5 * hp && errs[i - 1] <= 0.1 * bound {
                return "C01-overlong-step";
            }
        }
        return "";
    }
    // K2: all step ends fine; violating requested times strictly inside coarse steps
    if !has_t_eval {
        return "";
    }
    let exw = match exact_at(&s_with.t) {
        Some(e) => e,
        None => return "",
    };
    for ((t, y), e) in s_with.t.iter().zip(&s_with.y).zip(&exw) {
        if max_abs_diff(y, e) > bound {
            let ok = s.t.windows(2).any(|w| (t - w[0]) * d > 0.0 && (w[1] - t) * d > 0.0 && rate * (w[1] - w[0]).abs() > 1.0);
            if !ok {
                return "";
            }
        }
    }
    "C01-coarse-step-interpolation"
}

fn check_field(c: &Case, fs: &crate::field::FieldSpec) -> Outcome {
    let sp = &c.span;
    if c.method == Meth::RK4 {
        return Outcome::triv("field-family-is-for-error-controlled-methods");
    }
    let fld = crate::field::Field::new(fs, sp.x0, sp.xend, c.prob.warp.theta);
    let none: Vec<EvSpec> = vec![];
    let name = c.method.name();
    let mut rungs = 0;
    let mut worst = 0.0f64;
    let mut nacc_last = 0;
    for rung in 0..2 {
        let r = 10f64.powf(-c.e - 2.0 * rung as f64);
        let atol = r * 10f64.powf(c.atol_q[0]);
        let mut instr = Instr::new(&fld, &none);
        instr.dir = sp.dir();
        let o = RunOpts { method: c.method, rtol: Tol::S(r), atol: Tol::S(atol), first_step: None, max_step: None, max_steps: None, t_eval: c.t_eval.as_ref().map(|f| fracs_to_times(sp, f)), dense: false };
        let s = match solve(&instr, sp.x0, sp.xend, &fs.y0, &o) {
            RunResult::Ok(s) => s,
            other => return Outcome::triv(format!("run:{}", other.describe().chars().take(30).collect::<String>())),
        };
        if s.status != Status::Success {
            if rung == 0 {
                return Outcome::triv(format!("status:{}", status_name(s.status)));
            }
            break;
        }
        let reference = match crate::field::reference(&fld, &s.t) {
            Some(r) => r,
            None => return Outcome::triv("reference-did-not-converge"),
        };
        let mut emax = 0.0f64;
        let mut ymax = 0.0f64;
        for (y, yr) in s.y.iter().zip(&reference) {
            emax = emax.max(max_abs_diff(y, yr));
            ymax = ymax.max(inf_norm(yr));
        }
        let nacc = s.naccpt.max(1) as f64;
        nacc_last = s.naccpt;
        // reference accuracy 1e-13 (1+|y|) per interval, accumulated over the samples (contractive flow: no growth)
        let floor = 64.0 * f64::EPSILON * (1.0 + ymax) * nacc.sqrt() + 2e-13 * (1.0 + ymax) * (s.t.len() as f64) + 8.0 * ulp(sp.x0.abs().max(sp.xend.abs())) * fld.rate_t() * (1.0 + ymax);
        let tolscale = atol + r * ymax;
        let bound = C_BOUND * nacc * tolscale + floor;
        if !emax.is_finite() || emax > bound {
            let run_plain = || {
                let mut i2 = Instr::new(&fld, &none);
                i2.dir = sp.dir();
                let o2 = RunOpts { method: c.method, rtol: Tol::S(r), atol: Tol::S(atol), first_step: None, max_step: None, max_steps: None, t_eval: None, dense: false };
                match solve(&i2, sp.x0, sp.xend, &fs.y0, &o2) {
                    RunResult::Ok(s) => Some(s),
                    _ => None,
                }
            };
            let exact_at = |ts: &[f64]| crate::field::reference(&fld, ts);
            let key = if emax.is_finite() { diagnose_generic(&run_plain, &exact_at, &s, c.t_eval.is_some(), sp.dir(), fld.rate_t(), bound) } else { "" };
            return Outcome::viol_key(key, format!("{}: random dissipative field (n={}): max deviation {:e} from the reference integrator exceeds {}*naccpt*tolscale + floor = {:e} (naccpt {}, rtol {:e}, atol {:e})", name, fs.n, emax, C_BOUND, bound, s.naccpt, r, atol));
        }
        worst = worst.max((emax - floor).max(0.0) / (nacc * tolscale));
        rungs += 1;
    }
    Outcome::pass(format!("{}:field", name), nacc_last >= 3, json!({"rungs": rungs, "field_err_over_nacc_tolscale": worst, "n": fs.n}))
}

/// RADAU5's internal tolerances (documented transformation rtol' = 0.1 rtol^(2/3), atol' = rtol' atol/rtol):
/// the scale its third-order quantities -- the embedded estimate and the cubic dense output -- are held to
pub fn radau_internal_tolscale(rt: &[f64], at: &[f64], ym: &[f64]) -> f64 {
    (0..rt.len())
        .map(|j| {
            if rt[j] > 0.0 {
                let r = 0.1 * rt[j].powf(2.0 / 3.0);
                r * at[j] / rt[j] + r * ym[j]
            } else {
                at[j]
            }
        })
        .fold(0.0, f64::max)
}

/// Third diagnosis (K3): Radau, requested output times only.  The collocation interpolant is a cubic
/// (order 3) while the step has order 5; the step size follows the third-order estimate, so the dense
/// output is accurate to the *internal* tolerance 0.1*tol^(2/3), not to tol: at tolerances below ~1e-8
/// a requested time misses the C01 bound although every step end meets it.
fn radau_cubic_interpolant(c: &Case, prob: &Prob, rtol: Tol, atol: Tol, bound: f64, relaxed: f64, s_with: &Solution) -> bool {
    if c.method != Meth::RADAU || c.t_eval.is_none() {
        return false;
    }
    let mut c2 = c.clone();
    c2.t_eval = None;
    let s = match run_one(&c2, prob, rtol, atol, None) {
        Ok(s) => s,
        Err(_) => return false,
    };
    for i in 0..s.t.len() {
        if max_abs_diff(&s.y[i], &prob.exact(s.t[i])) > bound {
            return false;
        }
    }
    s_with.t.iter().zip(&s_with.y).all(|(t, y)| max_abs_diff(y, &prob.exact(*t)) <= relaxed)
}

/// Fourth diagnosis (K4): an implicit method with the default finite-difference Jacobian on a problem whose
/// state is small in absolute terms (units 2^mag2 < 1).  The crate's increment is sqrt(eps)*max(|y_j|, 1): for
/// |y| << 1 it is many times the state itself, the difference quotient of a nonlinear right-hand side is then
/// no approximation of the Jacobian, Newton converges slowly and the run takes thousands of tiny steps whose
/// errors add up.  Signature: implicit method, finite-difference Jacobian, mag2 < 0, and the identical case
/// with the analytic Jacobian passes the whole check.
fn fd_jacobian_small_state(c: &Case) -> bool {
    if !c.method.implicit() || c.analytic_jac || c.prob.mag2 >= 0 {
        return false;
    }
    let mut c2 = c.clone();
    c2.analytic_jac = true;
    matches!(check(&c2), Outcome::Pass { .. })
}

pub fn check(c: &Case) -> Outcome {
    if let Some(fs) = &c.field {
        return check_field(c, fs);
    }
    let sp = &c.span;
    let use_dummy = c.dummy > 0 && matches!(c.mode, TolMode::AbsDom) && c.method != Meth::RK4;
    let spec = if use_dummy {
        let mut sp2 = c.prob.clone();
        sp2.mix = None;
        let z = Block::Const { c: 0.0, u0: 0.0 };
        if c.dummy == 1 { sp2.blocks.insert(0, z); } else { sp2.blocks.push(z); }
        sp2
    } else {
        c.prob.clone()
    };
    let prob = Prob::new(&spec, sp.x0, sp.xend);
    let n = prob.n;
    let dummy_idx = if use_dummy { Some(if c.dummy == 1 { 0 } else { n - 1 }) } else { None };
    let name = c.method.name();
    let kappa = prob.kappa();
    if c.method == Meth::RK4 {
        // fourth-order convergence under step refinement
        let mut errs = vec![];
        let mut ymax = 0.0f64;
        for lvl in 0..3 {
            let steps = (c.rk4_steps << lvl) as f64 + c.rk4_frac;
            let h = (sp.xend - sp.x0) / steps;
            let s = match run_one(c, &prob, Tol::S(1e-6), Tol::S(1e-6), Some(h)) {
                Ok(s) => s,
                Err(e) => return Outcome::triv(format!("rk4-run:{}", e.chars().take(30).collect::<String>())),
            };
            if s.status != Status::Success {
                return Outcome::triv(format!("rk4-status:{}", status_name(s.status)));
            }
            let (e, _, ym) = errors(&prob, &s);
            ymax = ymax.max(ym.iter().cloned().fold(0.0, f64::max));
            errs.push(e);
        }
        // rounding floor: accumulated rounding of the states, and of the time variable (a time is
        // only known to an ulp; each step may shift the state by rate*|y|*ulp(t))
        let nsteps = (c.rk4_steps << 2) as f64;
        let floor = 64.0 * f64::EPSILON * (prob.mag + ymax) * nsteps.sqrt() + 8.0 * ulp(sp.x0.abs().max(sp.xend.abs())) * prob.rate_t() * ymax * nsteps.sqrt();
        // the step must resolve the fastest rate, otherwise we are not in the asymptotic range
        // (and a fixed step may even be unstable)
        let hr = prob.rate_t() * sp.len() / (c.rk4_steps as f64);
        if hr > 0.2 {
            return Outcome::triv("rk4-step-too-coarse-for-asymptotics");
        }
        if !errs.iter().all(|e| e.is_finite()) {
            return Outcome::viol(format!("RK4: non-finite error on a benign problem: {:?}", errs));
        }
        let mut orders = vec![];
        for k in 0..2 {
            if errs[k + 1] > 100.0 * floor {
                orders.push((errs[k] / errs[k + 1]).log2());
            }
        }
        for o in &orders {
            if *o < 3.2 {
                return Outcome::viol(format!("RK4: observed order {:.2} < 3.2 under step halving (errors {:?}, {} steps at the coarsest level)", o, errs, c.rk4_steps));
            }
        }
        // refinement never makes it worse
        for k in 0..2 {
            if errs[k + 1] > 2.0 * errs[k].max(floor) {
                return Outcome::viol(format!("RK4: halving the step increased the error: {:?}", errs));
            }
        }
        // "every sample returned (... or requested output times)": at requested times RK4 returns its cubic Hermite
        // interpolant, so a sample inside a step (the clipped last one included, and xend itself) is as accurate as the
        // step ends of the same run up to the interpolant's O(h^4) -- no order is measured here, only that bound
        {
            let steps = c.rk4_steps as f64 + c.rk4_frac;
            let h = (sp.xend - sp.x0) / steps;
            let mut fr: Vec<f64> = c.t_eval.clone().unwrap_or_default();
            let nst = steps.ceil();
            // two points inside the last (possibly clipped) step and its end
            fr.extend_from_slice(&[1.0 - 0.6 * (steps - (nst - 1.0)) / steps, 1.0 - 0.1 * (steps - (nst - 1.0)) / steps, 1.0]);
            fr.retain(|f| f.is_finite() && *f >= 0.0 && *f <= 1.0);
            fr.sort_by(|a, b| a.partial_cmp(b).unwrap());
            fr.dedup();
            let times = fracs_to_times(sp, &fr);
            let none: Vec<EvSpec> = vec![];
            let mut instr = Instr::new(&prob, &none);
            instr.dir = sp.dir();
            let o = RunOpts { method: Meth::RK4, rtol: Tol::S(1e-6), atol: Tol::S(1e-6), first_step: Some(h), max_step: None, max_steps: None, t_eval: Some(times.clone()), dense: false };
            if let RunResult::Ok(s) = solve(&instr, sp.x0, sp.xend, &prob.y0(), &o) {
                if s.status == Status::Success {
                    let allow = 10.0 * errs[0] + ymax * (prob.rate_t() * h.abs()).powi(4) + floor;
                    for (t, y) in s.t.iter().zip(&s.y) {
                        let e = max_abs_diff(y, &prob.exact(*t));
                        if !(e <= allow) {
                            return Outcome::viol(format!(
                                "RK4: requested output time t={:e} (span [{:e},{:e}], step {:e}, {} steps): sample is off by {:e} while the step ends of the same run are accurate to {:e} (allowed {:e})",
                                t, sp.x0, sp.xend, h, steps, e, errs[0], allow
                            ));
                        }
                    }
                }
            }
        }
        return Outcome::pass("RK4:order", !orders.is_empty(), json!({"errors": errs, "min_order": orders.iter().cloned().fold(f64::INFINITY, f64::min), "order_deficit": 4.0 - orders.iter().cloned().fold(f64::INFINITY, f64::min), "hr": hr}));
    }

    // error-controlled methods: ladder tol, tol*1e-2, tol*1e-4
    let mut prev: Option<f64> = None;
    let mut worst_ratio = 0.0f64;
    let mut worst_comp_ratio = 0.0f64;
    let mut rungs = 0;
    let mut any_above_floor = false;
    let mut nacc_last = 0usize;
    let mut non_monotone = 0u32;
    let decoupled = spec.mix.is_none();
    for rung in 0..3 {
        let r = 10f64.powf(-c.e - 2.0 * rung as f64);
        let (rt_v, at_v): (Vec<f64>, Vec<f64>) = {
            let rv: Vec<f64> = (0..n).map(|j| match (&c.mode, &c.rtol_vec) {
                (TolMode::PureAbs, _) => 0.0,
                (TolMode::AbsDom, _) => 1e-11,
                (TolMode::PureRel, Some(p)) => (r * 10f64.powf(2.5 * p[j % p.len()])).max(1e-11),
                (_, Some(p)) => r * 10f64.powf(p[j % p.len()]),
                _ => r,
            }).collect();
            let av: Vec<f64> = (0..n).map(|j| match c.mode {
                TolMode::PureRel => 0.0,
                // pure absolute control: per-component tolerances spread over 6 decades (pins the indexing)
                TolMode::PureAbs | TolMode::AbsDom => (r * 10f64.powf(if c.atol_vector { 2.0 * c.atol_q[j % c.atol_q.len()] } else { c.atol_q[0] })).max(1e-11),
                _ => r * 10f64.powf(if c.atol_vector { c.atol_q[j % c.atol_q.len()] } else { c.atol_q[0] }),
            }).collect();
            // absolute tolerances are in the units of the solution (2^mag2)
            let mut av: Vec<f64> = av.into_iter().map(|a| a * prob.mag).collect();
            if let Some(k) = dummy_idx {
                av[k] = 1e-2 * prob.mag;
            }
            (rv, av)
        };
        let atol_is_vec = c.atol_vector || dummy_idx.is_some();
        let rtol = if c.rtol_vec.is_some() { Tol::V(rt_v.clone()) } else { Tol::S(rt_v[0]) };
        let atol = if atol_is_vec { Tol::V(at_v.clone()) } else { Tol::S(at_v[0]) };
        let (rtol_k, atol_k) = (rtol.clone(), atol.clone());
        let s = match run_one(c, &prob, rtol, atol, None) {
            Ok(s) => s,
            Err(e) => return Outcome::triv(format!("run:{}", e.chars().take(30).collect::<String>())),
        };
        if s.status != Status::Success {
            // not asserted here (C03/C14 own success); BDF legitimately fails below ~6e-11
            if rung == 0 {
                return Outcome::triv(format!("status:{}", status_name(s.status)));
            }
            break;
        }
        let (emax, ec, ym) = errors(&prob, &s);
        let ymax = ym.iter().cloned().fold(0.0, f64::max);
        let nacc = s.naccpt.max(1) as f64;
        nacc_last = s.naccpt;
        // (every step end is only known to an ulp of the time: on a fast time scale far from t = 0 each step may shift the
        // state by rate*|y|*ulp(t), and the shifts can add up)
        let floor = 64.0 * f64::EPSILON * (prob.mag + ymax) * nacc.sqrt() + 8.0 * ulp(sp.x0.abs().max(sp.xend.abs())) * prob.rate_t() * ymax * nacc;
        // RADAU5 integrates with internally transformed tolerances rtol' = 0.1 rtol^(2/3),
        // atol' = rtol' * atol/rtol (documented in the solver; identical in the Fortran original):
        // when the absolute part dominates and rtol is tiny, the absolute tolerance actually used
        // is 0.1*rtol^(-1/3) times the requested one.  The bound uses the tolerance the method uses.
        let at_v: Vec<f64> = if c.method == Meth::RADAU && matches!(c.mode, TolMode::AbsDom) {
            (0..n).map(|j| at_v[j] * (0.1 * rt_v[j].powf(-1.0 / 3.0)).max(1.0)).collect()
        } else {
            at_v
        };
        let tolscale = (0..n).filter(|j| Some(*j) != dummy_idx).map(|j| at_v[j] + rt_v[j] * ym[j]).fold(0.0, f64::max);
        let bound = C_BOUND * kappa * nacc * tolscale + floor;
        if std::env::var("VF_DEBUG2").is_ok() {
            for (t, y) in s.t.iter().zip(&s.y) {
                let ex = prob.exact(*t);
                eprintln!("rung {} t={:e} y={:?} ex={:?} err={:e}", rung, t, y, ex, max_abs_diff(y, &ex));
            }
            eprintln!("nacc={} nrej={} nfev={}", s.naccpt, s.nrejct, s.nfev);
        }
        if !emax.is_finite() || emax > bound {
            if std::env::var_os("VF_C01_DIAG").is_some() {
                let mut c2 = c.clone();
                c2.t_eval = None;
                if let Ok(sp) = run_one(&c2, &prob, rtol_k.clone(), atol_k.clone(), None) {
                    eprintln!("C01-DIAG plain run: rate_t = {:e}", prob.rate_t());
                    for i in 0..sp.t.len() {
                        eprintln!("  t={:e} h={:e} err/bound={:.3}", sp.t[i], if i > 0 { sp.t[i] - sp.t[i - 1] } else { 0.0 }, max_abs_diff(&sp.y[i], &prob.exact(sp.t[i])) / bound);
                    }
                }
                eprintln!("C01-DIAG run with t_eval:");
                for i in 0..s.t.len() {
                    eprintln!("  t={:e} err/bound={:.3}", s.t[i], max_abs_diff(&s.y[i], &prob.exact(s.t[i])) / bound);
                }
            }
            let key = if emax.is_finite() && (single_overlong_step(c, &prob, rtol_k.clone(), atol_k.clone(), bound, None) || overlong_step_dominates(c, &prob, rtol_k.clone(), atol_k.clone(), bound, None)) {
                "C01-overlong-step"
            } else if emax.is_finite() && coarse_step_interpolation(c, &prob, rtol_k.clone(), atol_k.clone(), bound, &s, None) {
                "C01-coarse-step-interpolation"
            } else if emax.is_finite() && radau_cubic_interpolant(c, &prob, rtol_k.clone(), atol_k.clone(), bound, C_BOUND * kappa * nacc * radau_internal_tolscale(&rt_v, &at_v, &ym) + floor, &s) {
                "C01-radau-cubic-interpolant"
            } else if fd_jacobian_small_state(c) {
                "C01-fd-jacobian-small-state"
            } else {
                ""
            };
            return Outcome::viol_key(key, format!(
                "{}: max error {:e} exceeds {}*kappa*naccpt*tolscale + floor = {:e} (kappa {:.2}, naccpt {}, tolscale {:e}, rung {}, rtol {:?}, atol {:?}, mode {:?})",
                name, emax, C_BOUND, bound, kappa, s.naccpt, tolscale, rung, rt_v, at_v, c.mode
            ));
        }
        worst_ratio = worst_ratio.max((emax - floor).max(0.0) / (kappa * nacc * tolscale));
        if decoupled {
            // independent blocks: each component is controlled by its own tolerance
            for j in 0..n {
                // components of one block share their error: use the block's loosest tolerance
                let mut ts = 0.0f64;
                let mut off = 0;
                for b in &spec.blocks {
                    let dm = b.dim();
                    if j >= off && j < off + dm {
                        for q in off..off + dm {
                            ts = ts.max(at_v[q] + rt_v[q] * ym[q]);
                        }
                    }
                    off += dm;
                }
                let bj = C_BOUND * kappa * (n as f64).sqrt() * nacc * ts + floor;
                if ec[j] > bj {
                    let key = if single_overlong_step(c, &prob, rtol_k.clone(), atol_k.clone(), bj, Some(j)) || overlong_step_dominates(c, &prob, rtol_k.clone(), atol_k.clone(), bj, Some(j)) {
                        "C01-overlong-step"
                    } else if coarse_step_interpolation(c, &prob, rtol_k.clone(), atol_k.clone(), bj, &s, Some(j)) {
                        "C01-coarse-step-interpolation"
                    } else if fd_jacobian_small_state(c) {
                        "C01-fd-jacobian-small-state"
                    } else {
                        ""
                    };
                    return Outcome::viol_key(key, format!(
                        "{}: component {} error {:e} exceeds {}*kappa*sqrt(n)*naccpt*(atol_j + rtol_j*|y_j|) + floor = {:e} (decoupled problem; rtol {:?}, atol {:?})",
                        name, j, ec[j], C_BOUND, bj, rt_v, at_v
                    ));
                }
                worst_comp_ratio = worst_comp_ratio.max((ec[j] - floor).max(0.0) / (kappa * (n as f64).sqrt() * nacc * ts));
            }
        }
        if let Some(p) = prev {
            // recorded, not asserted: the bound itself shrinks in proportion to the tolerance, and an
            // error at the looser rung can be accidentally small (cancellation), see DESIGN.md
            if emax > 10.0 * p.max(floor) {
                non_monotone += 1;
            }
        }
        if emax > floor {
            any_above_floor = true;
        }
        prev = Some(emax);
        rungs += 1;
    }
    if worst_ratio > 2.0 && std::env::var("VF_DEBUG").is_ok() {
        eprintln!("RATIO {:.2} {} mode={:?} e={:.2} nacc={} warp={:?} teval={} blocks={:?}", worst_ratio, name, c.mode, c.e, nacc_last, c.prob.warp, c.t_eval.is_some(), c.prob.blocks);
    }
    let class = format!("{}:{:?}{}", name, c.mode, if c.t_eval.is_some() { ":t_eval" } else { "" });
    Outcome::pass(class, nacc_last >= 3 && any_above_floor, json!({"rungs": rungs, "rungs_where_error_grew_10x": non_monotone, "err_over_kappa_nacc_tolscale": worst_ratio, "comp_err_ratio": worst_comp_ratio, "kappa": kappa}))
}

/// problems whose exact solution stays away from zero in every component (for atol = 0)
fn positive_spec(nmax: usize) -> BoxedStrategy<ProbSpec> {
    (warp(0.3, 3.0), proptest::collection::vec(
        prop_oneof![
            (fr(-0.7, 0.15), fr(0.5, 2.0)).prop_map(|(lam, u0)| Block::Real { lam, u0 }),
            (fr(0.2, 2.0), fr(0.5, 2.0), fr(0.3, 2.0)).prop_map(|(r, k, q)| Block::Logi { r, k, u0: q * k }),
            (fr(0.3, 2.0), fr(0.1, 1.0)).prop_map(|(u0, q)| Block::Recip { rho: 0.3 * q / (u0 * 3.6), sg: -1.0, u0 }),
        ],
        1..=nmax,
    ))
        .prop_map(|(warp, blocks)| ProbSpec { blocks, warp, mix: None, mag2: 0 })
        .boxed()
}

pub fn strategy() -> BoxedStrategy<Case> {
    let meth = prop_oneof![1 => Just(Meth::RK4), 2 => Just(Meth::RK23), 2 => Just(Meth::DOPRI5), 2 => Just(Meth::DOP853), 2 => Just(Meth::RADAU), 2 => Just(Meth::BDF)];
    let body = |spec: BoxedStrategy<ProbSpec>, mode: TolMode| {
        (
            spec,
            // a quarter of the cases on other time scales (spans 1e-6..1e4): |y'|/|y| from 1e-4 to 1e7
            prop_oneof![15 => span_mid().boxed(), 5 => span_wide(-6.0, 4.0).boxed(), 1 => span_tiny().boxed()],
            meth.clone(),
            fr(3.0, 7.0),
            proptest::option::weighted(0.3, proptest::collection::vec(fr(-1.5, 0.0), 8..=8)),
            proptest::collection::vec(fr(-3.0, 0.0), 8..=8),
            any::<bool>(),
            proptest::option::weighted(0.35, t_eval_fracs(12)),
            any::<bool>(),
            (prop_oneof![Just(25u32), Just(50), Just(100), Just(200)], prop_oneof![Just(0.0), fr(0.05, 0.95)], 0u8..3, prop_oneof![2 => Just(0i32), 1 => -40i32..=40]),
        )
            .prop_map(move |(mut prob, span, method, e, rtol_vec, atol_q, atol_vector, t_eval, analytic_jac, (rk4_steps, rk4_frac, dummy, mag2))| {
                let e = if method == Meth::RK23 { 3.0 + (e - 3.0) * 0.5 } else { e };
                // a third of the cases in other units: the state (and every absolute tolerance) times 2^mag2, 1e-12..1e12
                prob.mag2 = mag2;
                // finding K4 (finite-difference Jacobian of a state that is small in absolute terms) is excluded by
                // construction: those cases use the analytic Jacobian
                let analytic_jac = analytic_jac || (method.implicit() && mag2 < 0 && std::env::var_os("VF_C01_KEEP_K4").is_none());
                Case { prob, span, method, e, rtol_vec, atol_q, atol_vector, mode: mode.clone(), t_eval, analytic_jac, rk4_steps, rk4_frac, dummy, field: None }
            })
    };
    let field = (1usize..=6).prop_flat_map(|n| {
        (
            proptest::collection::vec(fr(-1.0, 1.0), n * n..=n * n),
            proptest::collection::vec(fr(-1.0, 1.0), n * n..=n * n),
            proptest::collection::vec(fr(-1.0, 1.0), n..=n),
            proptest::collection::vec(fr(-1.0, 1.0), n..=n),
            proptest::collection::vec(fr(0.2, 3.0), n..=n),
            proptest::collection::vec(fr(0.0, 6.28), n..=n),
            proptest::collection::vec(fr(0.0, 1.0), n..=n),
            proptest::collection::vec(fr(-1.5, 1.5), n..=n),
        )
            .prop_map(move |(b, w, c, s, om, psi, dextra, y0)| crate::field::FieldSpec { n, b, w, c, s, om, psi, dextra, y0 })
    });
    let field_case = (body(prob_spec(1, 0.5, 6.0), TolMode::Mixed), field).prop_map(|(mut c, f)| {
        c.e = 3.0 + (c.e - 3.0) * 0.75; // 1e-3 .. 1e-6, second rung two decades tighter
        c.field = Some(f);
        c
    });
    prop_oneof![
        1 => field_case,
        6 => body(prob_spec(8, 0.3, 12.0), TolMode::Mixed),
        2 => body(prob_spec(6, 0.3, 8.0), TolMode::PureAbs),
        2 => body(positive_spec(5), TolMode::PureRel),
        2 => body(prob_spec(6, 0.3, 8.0), TolMode::AbsDom),
    ]
    .boxed()
}

pub fn run(ctx: &Ctx, known: &[Known]) -> Report {
    let cases = match ctx.tier {
        Tier::Quick => 40_000,
        Tier::Thorough => 1_500_000,
    };
    let stats = run_generated(ctx, "C01", "gen", &strategy, &check, cases, known);
    Report {
        id: "C01".into(),
        rule: "cases = closed-form problems (stacked linear / logistic / Riccati / Bernoulli / planar blocks, n<=8, composed with a monotone time-warp and a well-conditioned linear mixing, a third of them in units of 2^-40..2^40 (state and absolute tolerances scaled together)) x spans (both directions; a quarter of them 1e-6..1e4 long, i.e. fast and slow time scales) x six methods; error-controlled methods run a tolerance ladder rtol, rtol/100, rtol/10^4 starting at 1e-3..1e-7 (RK23 1e-3..1e-5), atol scalar or per component, rtol scalar or per component, also pure absolute (rtol = 0), absolute-dominated (rtol = 1e-11, atol spread over 6 decades, optionally an identically-zero first/last component carrying a loose atol = 1e-2) and pure relative (atol = 0, positive solutions) control, with or without t_eval; 1/13 of the cases use randomly generated smooth dissipative vector fields y' = -Dy + B tanh(Wy+c) + s sin(wt+psi) (n<=6, contractive) checked against the harness's own Richardson-extrapolated RK4 reference integrator; RK4 runs 25..200 steps (half of the time with a step that does not divide the span, so the last step is clipped) and two halvings. Oracle: every sample against the exact solution, bound 100*kappa*naccpt*tolscale + rounding floor at every rung; per-component bound for decoupled problems; (rungs where the error grew more than 10x after tightening are counted in the evidence, not asserted); RK4 at requested output times (the generated ones, two points inside the last, possibly clipped, step, and xend): error <= 10 x the largest step-end error of the same run + |y|(rate*h)^4 + floor; RK4 observed order >= 3.2 (minimum seen over 3e4 RK4 cases: 3.57) when the step resolves the fastest rate (h*rate <= 0.2). Non-trivial = Success, at least 3 accepted steps, some sample error above the rounding floor (RK4: at least one usable order estimate). Distinct = distinct canonical JSON.".into(),
        assumptions: vec![
            "kappa = cond(S) * max block amplification bound (a priori, from the closed forms)".into(),
            "a non-Success status is not a C01 violation (C03/C14 own it); it makes the case trivial".into(),
            "Radau in the absolute-dominated mode: the bound uses RADAU5's documented internal tolerance atol*0.1*rtol^(-1/3)".into(),
            "rounding floor = 64 eps (unit+|y|) sqrt(steps) + 8 ulp(t) * rate * |y| * steps".into(),
        ],
        min_nontrivial_frac: 0.5,
        stats,
        exhaustive: false,
    }
}
