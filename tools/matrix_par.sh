#!/usr/bin/env bash
# tools/matrix_par.sh [workers]  -- seed x check matrix on private copies of /repo and /verif under /tmp/mx-*
# (so /repo itself is untouched and work can go on).  Result: /verif/seeded/MATRIX.tsv.  Copies are removed at the end.
W="${1:-4}"
seeds=($(ls -d /verif/seeded/C*/ | xargs -n1 basename | grep -v '^C20'))
ids=$(python3 -c "import json; print(' '.join(c['property_id'] for c in json.load(open('/verif/MANIFEST.json'))['checks'] if c['property_id']!='C20'))")
worker() {
  k="$1"; root="/tmp/mx-$k"; rm -rf "$root"; mkdir -p "$root"
  git -C /repo worktree add -q --detach "$root/repo" HEAD 2>/dev/null || cp -r /repo "$root/repo"
  rsync -a --exclude harness/fuzz/target --exclude py/build --exclude .git /verif/ "$root/verif/"
  sed -i "s#path = \"/repo\"#path = \"$root/repo\"#" "$root/verif/harness/Cargo.toml"
  out="$root/matrix.tsv"; : > "$out"
  i=0
  for s in "${seeds[@]}"; do
    if [ $(( i % W )) -eq "$k" ]; then
      git -C "$root/repo" checkout -q -- . ; git -C "$root/repo" apply "/verif/seeded/$s/patch.diff" || { echo "$s APPLYFAIL" >> "$out"; i=$((i+1)); continue; }
      for id in $ids; do
        ( cd "$root/verif" && VERIF_SCALE=${MATRIX_SCALE:-1} ./check "$id" --tier quick >/dev/null 2>&1 ); rc=$?
        printf "%s\t%s\t%s\n" "$s" "$id" "$rc" >> "$out"
      done
      git -C "$root/repo" checkout -q -- .
    fi
    i=$((i+1))
  done
}
for k in $(seq 0 $((W-1))); do worker "$k" & done
wait
cat /tmp/mx-*/matrix.tsv | sort > /verif/seeded/MATRIX.tsv
for k in $(seq 0 $((W-1))); do git -C /repo worktree remove --force "/tmp/mx-$k/repo" 2>/dev/null; rm -rf "/tmp/mx-$k"; done
git -C /repo worktree prune
echo "matrix done: $(wc -l < /verif/seeded/MATRIX.tsv) rows"
