pub mod c03;
pub mod c16;
pub mod c17;
