//! "Dense output on demand": a SolOut callback may answer ControlFlag::XOut(x_next) to announce the next
//! abscissa at which it wants to interpolate.  The answer is a hint about WHEN interpolation coefficients are
//! needed; it must change neither the steps taken nor any interpolant that is handed over.  Shared by C02
//! (the steps are the same method steps), C06 (a handed interpolant reproduces both step ends) and C07
//! (inside the step it is the same interpolant as in an undisturbed run).

use crate::engine::*;
use crate::gen::*;
use crate::instr::*;
use crate::lowlevel::*;
use crate::problems::*;
use crate::run::*;
use crate::util::*;
use ivp::prelude::Status;
use proptest::prelude::*;
use serde::{Deserialize, Serialize};
use serde_json::json;

#[derive(Serialize, Deserialize, Clone, Debug)]
pub struct XCase {
    pub prob: ProbSpec,
    pub span: Span,
    pub method: Meth,
    pub rtol: f64,
    pub atol_rel: f64,
    pub first_step: Option<f64>,
    pub max_step: Option<f64>,
    pub analytic_jac: bool,
    /// the low-level solver's dense_output flag (None = its default)
    pub dense: Option<bool>,
    /// (callback selector, where): at callback pick(sel, ncalls) answer XOut(x + where*len*dir);
    /// where = 0 is "already reached", < 0 lies behind, > 1 beyond the end of the run
    pub replies: Vec<(u16, f64)>,
    /// output every `every` of the span, announced with XOut after each callback that passed the previous one
    pub every: Option<f64>,
}

#[derive(Clone, Copy, PartialEq, Debug)]
pub enum Aspect {
    Steps,
    Ends,
    Inside,
    /// all three (C19: the protocol as a whole)
    All,
}
impl Aspect {
    fn has(self, a: Aspect) -> bool {
        self == a || self == Aspect::All
    }
}

struct Run {
    recs: Vec<CbRec>,
    status: Status,
}

/// equidistant printing as in Hairer's drivers: after the callback that passed the current output point, announce the next one
struct Printer<'a> {
    inner: RecSolOut<'a>,
    next: f64,
    dx: f64,
    dir: f64,
}
impl<'a> ivp::solout::SolOut for Printer<'a> {
    fn solout(&mut self, xold: f64, x: &mut f64, y: &mut [f64], interp: Option<&ivp::prelude::StepInterpolant<'_>>) -> ivp::prelude::ControlFlag {
        let _ = self.inner.solout(xold, x, y, interp);
        let mut moved = xold == *x;
        while (self.next - *x) * self.dir <= 0.0 {
            self.next += self.dx;
            moved = true;
        }
        if moved {
            ivp::prelude::ControlFlag::XOut(self.next)
        } else {
            ivp::prelude::ControlFlag::Continue
        }
    }
}

fn run(c: &XCase, prob: &Prob, atol: f64, dense: Option<bool>, script: Vec<(usize, Act)>, every: Option<f64>) -> Result<Run, String> {
    let sp = &c.span;
    let none: Vec<EvSpec> = vec![];
    let mut instr = Instr::new(prob, &none);
    instr.dir = sp.dir();
    instr.use_jac = c.analytic_jac;
    instr.budget = 3_000_000;
    let lo = LowOpts {
        first_step: match c.method {
            Meth::RK4 => Some(c.first_step.unwrap_or(0.01).clamp(0.004, 0.02) * sp.len() * sp.dir()),
            _ => c.first_step.map(|f| f * sp.len()),
        },
        max_step: c.max_step.map(|f| f * sp.len()),
        identity_mass: true,
        dense,
        ..Default::default()
    };
    let y0 = prob.y0();
    let mut so = RecSolOut::new(script);
    so.thetas = vec![0.25, 0.5, 0.9];
    let (rt, at) = (Tol::S(c.rtol), Tol::S(atol));
    let (r, recs) = match every {
        None => {
            let r = guarded(|| solve_low(c.method, &instr, sp.x0, sp.xend, &y0, &rt, &at, &lo, &mut so))?;
            (r, so.recs)
        }
        Some(e) => {
            let dx = e * sp.len() * sp.dir();
            let mut pr = Printer { inner: so, next: sp.x0 + dx, dx, dir: sp.dir() };
            let r = guarded(|| solve_low(c.method, &instr, sp.x0, sp.xend, &y0, &rt, &at, &lo, &mut pr))?;
            (r, pr.inner.recs)
        }
    };
    let r = r?;
    Ok(Run { recs, status: r.status })
}

pub fn check(c: &XCase, aspect: Aspect) -> Outcome {
    let sp = &c.span;
    let prob = Prob::new(&c.prob, sp.x0, sp.xend);
    let atol = c.rtol * c.atol_rel;
    let name = c.method.name();
    let a = match run(c, &prob, atol, None, vec![], None) {
        Ok(h) => h,
        Err(e) => return Outcome::triv(format!("undisturbed-run:{}", e.chars().take(40).collect::<String>())),
    };
    if a.recs.len() < 2 {
        return Outcome::triv("no-step");
    }
    let ncalls = a.recs.len();
    let script: Vec<(usize, Act)> = c.replies.iter().map(|(s, w)| (((*s as usize) * ncalls) >> 16, Act::XOut(w * sp.len() * sp.dir()))).collect();
    let b = match run(c, &prob, atol, c.dense, script.clone(), c.every) {
        Ok(h) => h,
        Err(e) => return Outcome::viol(format!("{}: the run whose callback answers XOut fails ({}) although the undisturbed run ends with {}", name, e, status_name(a.status))),
    };
    let what = format!("dense_output={:?}, XOut answered at callbacks {:?}{}", c.dense, script.iter().map(|(k, _)| *k).collect::<Vec<_>>(), c.every.map_or(String::new(), |e| format!(", equidistant output every {:.3} of the span", e)));
    // ---- steps: XOut answers do not move the accepted-step grid or the states
    if aspect.has(Aspect::Steps) {
        if b.status != a.status || b.recs.len() != a.recs.len() {
            return Outcome::viol(format!("{}: {} callbacks / {} when the callback answers XOut, {} / {} when it answers Continue ({})", name, b.recs.len(), status_name(b.status), a.recs.len(), status_name(a.status), what));
        }
        for k in 0..a.recs.len() {
            let (p, q) = (&a.recs[k], &b.recs[k]);
            if p.x.to_bits() != q.x.to_bits() || p.xold.to_bits() != q.xold.to_bits() || !bits_eq(&p.y, &q.y) {
                return Outcome::viol(format!("{}: accepted step {} differs when the callback answers XOut: x={:e} vs {:e}, max state difference {:e} ({}): the step following an XOut answer is not the method's step from (x, y)", name, k, q.x, p.x, max_abs_diff(&p.y, &q.y), what));
            }
        }
    }
    let mut handed = 0usize;
    let mut withheld = 0usize;
    for k in 1..b.recs.len() {
        let r = &b.recs[k];
        if !r.has_interp {
            withheld += 1;
            continue;
        }
        handed += 1;
        let p = &b.recs[k - 1];
        if aspect.has(Aspect::Ends) {
            let mut fy = vec![0.0; r.y.len()];
            crate::instr::Rhs::f(&prob, r.x, &r.y, &mut fy);
            let mut fo = vec![0.0; r.y.len()];
            crate::instr::Rhs::f(&prob, p.x, &p.y, &mut fo);
            let tol = 1e-10 * (1.0 + inf_norm(&r.y).max(inf_norm(&p.y))) + 8.0 * inf_norm(&fy).max(inf_norm(&fo)) * ulp(r.x.abs().max(r.xold.abs()));
            let (d0, d1) = (max_abs_diff(&r.at_xold, &p.y), max_abs_diff(&r.at_x, &r.y));
            if !(d0 <= tol) || !(d1 <= tol) || r.at_xold.iter().chain(&r.at_x).any(|v| v.is_nan()) {
                return Outcome::viol(format!("{}: the interpolant handed to callback {} does not reproduce the step's end states: |I(xold)-y_prev|={:e}, |I(x)-y|={:e} (tolerance {:e}; {})", name, k, d0, d1, tol, what));
            }
        }
        if aspect.has(Aspect::Inside) && k < a.recs.len() && a.recs[k].has_interp && a.recs[k].x.to_bits() == r.x.to_bits() && bits_eq(&a.recs[k].y, &r.y) {
            let q = &a.recs[k];
            for (t, (u, v)) in q.at_theta.iter().zip(&r.at_theta).enumerate() {
                if !bits_eq(u, v) {
                    return Outcome::viol(format!("{}: inside accepted step {} (theta index {}) the handed interpolant differs by {:e} from the interpolant of the same step in the undisturbed run ({})", name, k, t, max_abs_diff(u, v), what));
                }
            }
        }
    }
    let class = format!("{}:xout:{}{}", name, match c.dense { None => "default", Some(true) => "dense", Some(false) => "on-demand" }, if c.every.is_some() { ":printer" } else { "" });
    Outcome::pass(class, a.recs.len() >= 4 && handed >= 1, json!({"callbacks": a.recs.len(), "interpolants_handed": handed, "withheld": withheld}))
}

pub fn strategy() -> BoxedStrategy<XCase> {
    (
        prob_spec(4, 0.5, 6.0),
        span_mid(),
        any_method(),
        log10(-8.0, -3.0),
        log10(-3.0, 0.0),
        (proptest::option::weighted(0.3, log10(-3.0, -0.5)), proptest::option::weighted(0.3, log10(-2.0, 0.0))),
        any::<bool>(),
        prop_oneof![Just(None), Just(Some(true)), Just(Some(false)), Just(Some(false))],
        proptest::collection::vec((any::<u16>(), prop_oneof![3 => fr(0.0, 0.3), 1 => Just(0.0), 1 => Just(2.0), 1 => fr(-0.5, 0.0), 1 => Just(1e300)]), 0..5),
        proptest::option::weighted(0.5, fr(0.02, 0.4)),
    )
        .prop_map(|(prob, span, method, rtol, atol_rel, (first_step, max_step), analytic_jac, dense, replies, every)| XCase { prob, span, method, rtol, atol_rel, first_step, max_step, analytic_jac, dense, replies, every })
        .boxed()
}
