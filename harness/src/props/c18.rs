//! C18 — Reported statistics count what actually happened.

use crate::engine::*;
use crate::gen::*;
use crate::instr::*;
use crate::problems::*;
use crate::run::*;
use proptest::prelude::*;
use serde::{Deserialize, Serialize};
use serde_json::json;

#[derive(Serialize, Deserialize, Clone, Debug)]
pub struct Case {
    pub prob: ProbSpec,
    pub span: Span,
    pub method: Meth,
    pub rtol: Tol,
    pub atol: Tol,
    pub analytic_jac: bool,
    pub first_step: Option<f64>,
    pub max_steps: Option<usize>,
    pub t_eval: Option<Vec<f64>>,
    pub dense: bool,
    pub zero_length: bool,
    /// terminal event t = x0 + f*(xend-x0)
    pub terminal_at: Option<f64>,
    /// the right-hand side becomes non-finite from a fraction of the span on (failed Newton iterations, rejected steps and
    /// the failure exits must be counted as they happened)
    #[serde(default)]
    pub fault: Option<Fault>,
    /// Radau / BDF through the low-level builder with this Newton iteration budget (1..3: iterations that run out of budget)
    #[serde(default)]
    pub low_newton: Option<usize>,
    /// Radau / BDF on y' = +-2^k y (analytic Jacobian) with the first step that makes the iteration matrix exactly singular
    /// at the first attempt (k, backward, rates of extra decoupled components relative to 2^k, span / first step): the
    /// singular-matrix retry path evaluates the Jacobian again; every such call must be counted
    #[serde(default)]
    pub resonant: Option<(i32, bool, Vec<f64>, f64)>,
}

struct Reso {
    lam: f64,
    extra: Vec<f64>,
}
impl Rhs for Reso {
    fn dim(&self) -> usize {
        1 + self.extra.len()
    }
    fn f(&self, _t: f64, y: &[f64], dy: &mut [f64]) {
        dy[0] = self.lam * y[0];
        for (i, e) in self.extra.iter().enumerate() {
            dy[i + 1] = e * self.lam.abs() * y[i + 1];
        }
    }
    fn has_jac(&self) -> bool {
        true
    }
    fn jac_dense(&self, _t: f64, _y: &[f64], j: &mut [f64]) {
        let n = self.dim();
        for v in j.iter_mut() {
            *v = 0.0;
        }
        j[0] = self.lam;
        for (i, e) in self.extra.iter().enumerate() {
            j[(i + 1) * n + i + 1] = e * self.lam.abs();
        }
    }
}

fn check_resonant(c: &Case, k: i32, neg: bool, extra: &[f64], mult: f64) -> Outcome {
    let meth = if c.method == Meth::BDF { Meth::BDF } else { Meth::RADAU };
    // the constants as the solvers form them (as in C04's resonant cases)
    let gamma = if meth == Meth::BDF { 1.0 - (-0.1850) } else { 3.637_834_252_744_496 };
    let lam = crate::instr::ldexp(if neg { -1.0 } else { 1.0 }, k);
    let d = if neg { -1.0 } else { 1.0 };
    let h0 = gamma / lam.abs();
    let (x0, xend) = (0.0, d * h0 * mult);
    let rhs = Reso { lam, extra: extra.to_vec() };
    let n = rhs.dim();
    let none: Vec<EvSpec> = vec![];
    let mut instr = Instr::new(&rhs, &none);
    instr.dir = d;
    instr.use_jac = true;
    instr.budget = 2_000_000;
    let o = RunOpts { method: meth, rtol: c.rtol.fit(n), atol: c.atol.fit(n), first_step: Some(h0), max_step: None, max_steps: Some(c.max_steps.unwrap_or(3000)), t_eval: None, dense: c.dense };
    let sol = match solve(&instr, x0, xend, &vec![1.0; n], &o) {
        RunResult::Ok(s) => s,
        other => return Outcome::triv(format!("resonant:no-solution:{}", other.describe().chars().take(30).collect::<String>())),
    };
    let log = instr.take_log();
    let desc = format!("{} {} (y' = {:e} y, first_step = {:e}: iteration matrix exactly singular at the first attempt)", meth.name(), status_name(sol.status), lam, h0);
    if sol.nfev as u64 != log.ode_calls {
        return Outcome::viol(format!("{}: nfev={} but the stepper made {} right-hand-side evaluations", desc, sol.nfev, log.ode_calls));
    }
    if sol.njev as u64 != log.jac_calls {
        return Outcome::viol(format!("{}: njev={} but jac was called {} times", desc, sol.njev, log.jac_calls));
    }
    if sol.nstep < sol.naccpt {
        return Outcome::viol(format!("{}: nstep={} < naccpt={}", desc, sol.nstep, sol.naccpt));
    }
    Outcome::pass(format!("{}:resonant:{}", meth.name(), status_name(sol.status)), true, json!({"nfev": sol.nfev, "njev": sol.njev, "nlu": sol.nlu, "naccpt": sol.naccpt}))
}

struct Quiet;
impl ivp::solout::SolOut for Quiet {
    fn solout(&mut self, _xold: f64, _x: &mut f64, _y: &mut [f64], _i: Option<&ivp::prelude::StepInterpolant<'_>>) -> ivp::prelude::ControlFlag {
        ivp::prelude::ControlFlag::Continue
    }
}

/// low-level Radau / BDF with a small Newton budget: evals.ode / evals.jac against the calls actually made
fn check_low(c: &Case, k: usize) -> Outcome {
    let sp = &c.span;
    let prob = Prob::new(&c.prob, sp.x0, sp.xend);
    let n = prob.n;
    let none: Vec<EvSpec> = vec![];
    let mut instr = Instr::new(&prob, &none);
    instr.dir = sp.dir();
    instr.use_jac = c.analytic_jac;
    instr.budget = 3_000_000;
    let lo = crate::lowlevel::LowOpts { first_step: c.first_step.map(|f| f * sp.len()), max_steps: Some(c.max_steps.unwrap_or(2000)), newton_maxiter: Some(k), identity_mass: true, ..Default::default() };
    let mut so = Quiet;
    let y0 = prob.y0();
    let r = match guarded(|| crate::lowlevel::solve_low(c.method, &instr, sp.x0, sp.xend, &y0, &c.rtol.fit(n), &c.atol.fit(n), &lo, &mut so)) {
        Ok(Ok(r)) => r,
        Ok(Err(e)) => return Outcome::triv(format!("low-level:{}", e.chars().take(30).collect::<String>())),
        Err(e) => return Outcome::triv(format!("low-level:{}", e.chars().take(30).collect::<String>())),
    };
    let log = instr.take_log();
    let desc = format!("{} (low-level, newton_maxiter={}) {}", c.method.name(), k, status_name(r.status));
    if r.evals.ode as u64 != log.ode_calls {
        return Outcome::viol(format!("{}: evals.ode={} but the stepper made {} right-hand-side evaluations ({} more inside Jacobian differencing; {} accepted, {} rejected steps)", desc, r.evals.ode, log.ode_calls, log.ode_calls_in_jac, r.steps.accepted, r.steps.rejected));
    }
    if r.evals.jac as u64 != log.jac_calls {
        return Outcome::viol(format!("{}: evals.jac={} but jac was called {} times", desc, r.evals.jac, log.jac_calls));
    }
    if r.steps.total < r.steps.accepted {
        return Outcome::viol(format!("{}: steps.total {} < steps.accepted {}", desc, r.steps.total, r.steps.accepted));
    }
    Outcome::pass(format!("{}:low-newton-budget", c.method.name()), r.steps.rejected > 0 || r.steps.accepted >= 10, json!({"nfev": r.evals.ode, "rejected": r.steps.rejected}))
}

pub fn check(c: &Case) -> Outcome {
    if let Some((k, neg, extra, mult)) = &c.resonant {
        return check_resonant(c, *k, *neg, extra, *mult);
    }
    if let (Some(k), true) = (c.low_newton, c.method.implicit()) {
        return check_low(c, k);
    }
    let sp = &c.span;
    let (x0, xend) = if c.zero_length { (sp.x0, sp.x0) } else { (sp.x0, sp.xend) };
    let prob = Prob::new(&c.prob, sp.x0, sp.xend);
    let n = prob.n;
    let mut evs = vec![EvSpec { g: Ev::Const { v: 1.0 }, dir: 0, terminal: None }];
    if let Some(f) = c.terminal_at {
        evs.push(EvSpec { g: Ev::Time { c: sp.x0 + f * (sp.xend - sp.x0) }, dir: 0, terminal: Some(1) });
    }
    let mut instr = Instr::new(&prob, &evs);
    instr.dir = sp.dir();
    instr.use_jac = c.analytic_jac;
    instr.rec_ev = true;
    instr.fault = c.fault.as_ref().map(|f| match f {
        Fault::From { at, v } => Fault::From { at: sp.x0 + at * (sp.xend - sp.x0), v: *v },
        Fault::CompFrom { at, i, v } => Fault::CompFrom { at: sp.x0 + at * (sp.xend - sp.x0), i: *i % n.max(1), v: *v },
        other => other.clone(),
    });
    let opts = RunOpts {
        method: c.method,
        rtol: c.rtol.fit(n),
        atol: c.atol.fit(n),
        first_step: c.first_step.map(|f| f * sp.len() * sp.dir()),
        max_step: None,
        max_steps: c.max_steps,
        t_eval: c.t_eval.as_ref().map(|f| fracs_to_times(sp, f)),
        dense: c.dense,
    };
    let y0 = prob.y0();
    let sol = match solve(&instr, x0, xend, &y0, &opts) {
        RunResult::Ok(s) => s,
        other => return Outcome::triv(format!("no-solution:{}", other.describe().chars().take(30).collect::<String>())),
    };
    let log = instr.take_log();
    let desc = format!("{} {}", c.method.name(), status_name(sol.status));
    if c.zero_length {
        if sol.nfev != 0 || sol.njev != 0 || sol.naccpt != 0 || sol.nstep != 0 || sol.nrejct != 0 || sol.nlu != 0 {
            return Outcome::viol(format!("zero-length run has non-zero counters: nfev={} njev={} nstep={} naccpt={} nrejct={} nlu={}", sol.nfev, sol.njev, sol.nstep, sol.naccpt, sol.nrejct, sol.nlu));
        }
        return Outcome::pass(format!("{}:zero-length", c.method.name()), true, json!({"nfev": 0}));
    }
    if sol.nfev as u64 != log.ode_calls {
        return Outcome::viol(format!("{}: nfev={} but the stepper made {} right-hand-side evaluations ({} more inside Jacobian differencing; first_step={:?}, analytic_jac={})", desc, sol.nfev, log.ode_calls, log.ode_calls_in_jac, opts.first_step, c.analytic_jac));
    }
    if sol.njev as u64 != log.jac_calls {
        return Outcome::viol(format!("{}: njev={} but jac was called {} times", desc, sol.njev, log.jac_calls));
    }
    // one events() call per accepted step; root refinement of the terminal event adds calls at
    // times inside the last step, i.e. after the strictly monotone prefix
    let mut mono = 0usize;
    for (k, t) in log.ev_t.iter().enumerate() {
        if k == 0 || (t - log.ev_t[k - 1]) * sp.dir() > 0.0 {
            mono = k + 1;
        } else {
            break;
        }
    }
    let accepted = (mono as u64).saturating_sub(1);
    if sol.naccpt as u64 != accepted {
        return Outcome::viol(format!("{}: naccpt={} but {} accepted steps were handed to the output handler", desc, sol.naccpt, accepted));
    }
    if sol.nstep < sol.naccpt {
        return Outcome::viol(format!("{}: nstep={} < naccpt={}", desc, sol.nstep, sol.naccpt));
    }
    if c.t_eval.is_none() && c.first_step.is_none() && c.terminal_at.is_none() {
        // the handler merges step ends closer than its 1e-12 resolution: look at the real step sequence
        let close = log.ev_t.windows(2).any(|w| (w[1] - w[0]).abs() <= 4e-12);
        if !close && sol.t.len() != sol.naccpt + 1 {
            return Outcome::viol(format!("{}: naccpt={} but {} intervals reported (no output filtering requested)", desc, sol.naccpt, sol.t.len().saturating_sub(1)));
        }
    }
    let class = format!("{}:{}:{}", c.method.name(), status_name(sol.status), if c.analytic_jac { "ajac" } else { "fd" });
    Outcome::pass(class, sol.nrejct > 0 || c.method.implicit(), json!({"nfev": sol.nfev, "njev": sol.njev, "naccpt": sol.naccpt, "nrejct": sol.nrejct, "nstep": sol.nstep, "fd_evals": log.ode_calls_in_jac}))
}

pub fn strategy() -> BoxedStrategy<Case> {
    (
        prob_spec(6, 0.3, 8.0),
        span_mid(),
        any_method(),
        tols(6, 3.0, 9.0),
        any::<bool>(),
        proptest::option::weighted(0.3, fr(0.001, 0.3)),
        proptest::option::weighted(0.15, 1usize..40),
        proptest::option::weighted(0.25, t_eval_fracs(8)),
        any::<bool>(),
        (0u8..25, proptest::option::weighted(0.3, fr(0.05, 0.95)), 0u16..150, fr(3.0, 4.3)),
        (proptest::option::weighted(0.08, prop_oneof![
            3 => (fr(0.05, 0.98), 0u8..3).prop_map(|(at, v)| Fault::From { at, v }),
            1 => (fr(0.05, 0.98), 0usize..6, 0u8..3).prop_map(|(at, i, v)| Fault::CompFrom { at, i, v }),
        ]), proptest::option::weighted(0.06, 1usize..=3)),
        proptest::option::weighted(0.02, (-20i32..=20, any::<bool>(), proptest::collection::vec(fr(-2.0, 0.9), 0..3), fr(1.5, 10.0))),
    )
        .prop_map(|(mut prob, span, mut method, (rtol, atol), analytic_jac, first_step, mut max_steps, t_eval, dense, (z, terminal_at, stiff, le), (fault, low_newton), resonant)| {
            // a faulty right-hand side can keep an explicit method busy for ever (C04's subject): bound those runs
            if fault.is_some() && max_steps.is_none() {
                max_steps = Some(3000);
            }
            let first_step = match (method, first_step) {
                (Meth::RK4, Some(f)) => Some(f.max(0.004)),
                (_, f) => f,
            };
            if stiff == 1 && z != 0 {
                // one case in 150: the right-hand side vanishes identically (f(x0, y0) = 0 exactly): the initial-step
                // heuristics take their degenerate branches; every evaluation they count must have been made
                prob = ProbSpec { blocks: vec![Block::Const { c: 0.0, u0: 0.7 }, Block::Const { c: 0.0, u0: -1.3 }], warp: Warp { theta: 1.0, k: 0, beta: 0.0 }, mix: None, mag2: 0 };
            }
            if stiff == 0 && z != 0 {
                // one case in 150: a stiff decay handed to DOPRI5 / DOP853, so that the run ends through the solver's own
                // stiffness detection (ProbablyStiff) after a thousand steps: the counters of that exit path
                prob = ProbSpec { blocks: vec![Block::Real { lam: -(10f64.powf(le)), u0: 1.0 }, Block::Real { lam: -0.5, u0: 0.7 }], warp: Warp { theta: 8.0, k: 0, beta: 0.0 }, mix: None, mag2: 0 };
                method = if analytic_jac { Meth::DOPRI5 } else { Meth::DOP853 };
                max_steps = None;
            }
            Case { prob, span, method, rtol, atol, analytic_jac, first_step, max_steps, t_eval, dense, zero_length: z == 0, terminal_at, fault, low_newton, resonant }
        })
        .boxed()
}

pub fn run(ctx: &Ctx, known: &[Known]) -> Report {
    let cases = match ctx.tier {
        Tier::Quick => 250_000,
        Tier::Thorough => 2_000_000,
    };
    let stats = run_generated(ctx, "C18", "gen", &strategy, &check, cases, known);
    Report {
        id: "C18".into(),
        rule: "cases = closed-form problems (n<=6) x spans x six methods x tolerances 1e-3..1e-9 (scalar/vector) x analytic or finite-difference Jacobian x first_step x max_steps x t_eval x dense x optional terminal time event, plus zero-length runs; 8 % of the cases have a right-hand side that becomes NaN / +-inf from a generated time on (failed Newton iterations, rejected steps and failure exits are counted as they happened; max_steps <= 3000 there); 6 % drive Radau / BDF through the low-level builder with newton_maxiter = 1..3 and compare IntegrationResult.evals with the calls made; 2 % run Radau / BDF on y' = +-2^k y (plus up to two decoupled components, analytic Jacobian) with the first step that makes the iteration matrix exactly singular at the first attempt, so that the singular-matrix retry (and its repeated Jacobian evaluation) is on the path. Oracle: counters of an instrumented IVP (ode calls outside Jacobian differencing, jac calls, one events() call per accepted step through a never-crossing event function). Non-trivial = at least one rejected step, or an implicit method (njev/nlu exercised), or a zero-length run. Distinct = distinct canonical JSON.".into(),
        assumptions: vec!["right-hand-side evaluations made by the crate's default finite-difference Jacobian are identified by a flag set while IVP::jac runs".into()],
        min_nontrivial_frac: 0.3,
        stats,
        exhaustive: false,
    }
}
