use ivp::prelude::*;
use ivp::methods::DOP853;
use ivp::solout::SolOut;
struct P;
const X0:f64=-51.132; const XE:f64=-53.5941499;
fn tau(t:f64)->f64{ let span=(XE-X0).abs(); let th=4.245333700000001; let a=th/span; let w=2.0*std::f64::consts::PI*2.0/span; let b=-0.532437*a/w; let d=t-X0; (a*d+b*(w*d).sin())*-1.0 }
fn dtau(t:f64)->f64{ let span=(XE-X0).abs(); let th=4.245333700000001; let a=th/span; let w=2.0*std::f64::consts::PI*2.0/span; let b=-0.532437*a/w; let d=t-X0; (a+b*w*(w*d).cos())*-1.0 }
impl IVP for P { fn ode(&self, x: f64, y: &[f64], dy: &mut [f64]) { let s=1.3166225; let sinv=1.0/s; let u=0.0+sinv*y[0]; let g=-0.4330935*u; dy[0] = (0.0+s*g)*dtau(x); } }
struct S{last:f64}
impl SolOut for S { fn solout(&mut self, xold:f64, x:&mut f64, y:&mut [f64], _i:Option<&StepInterpolant<'_>>)->ControlFlag{
  let y0=1.0682876*1.3166225; let ex=y0*(-0.4330935*tau(*x)).exp(); println!("x={:.6} h={:.5} err={:.3e} dlocal={:.3e}",x,*x-xold,(y[0]-ex).abs(), ((y[0]-ex).abs()-self.last)); self.last=(y[0]-ex).abs(); ControlFlag::Continue } }
fn main(){
    let y0=1.0682876*1.3166225;
    let mut s=S{last:0.0};
    let r=DOP853::builder().build().solve(&P,X0,&[y0],XE,ivp::methods::Tolerance::Scalar(0.0),ivp::methods::Tolerance::Scalar(2.912178558729314e-12),Some(&mut s)).unwrap();
    println!("{:?} {:?}",r.status,r.steps);
}
