#!/usr/bin/env bash
# tools/runall.sh [tier] : run every registered check once, print rc per check
tier="${1:-quick}"
cd /verif
for id in $(python3 -c "import json; print(' '.join(c['property_id'] for c in json.load(open('MANIFEST.json'))['checks']))"); do
  out=$(./check "$id" --tier "$tier" 2>&1); rc=$?
  echo "$id rc=$rc $(echo "$out" | grep -E 'VIOLATION|KNOWN-FINDING|GENERATOR|INCONCL|BUILD|oracle' | head -2 | tr '\n' ' ') | $(echo "$out" | tail -1)"
done
