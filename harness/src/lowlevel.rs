//! Direct invocation of the six low-level solvers with a user SolOut.

use crate::problems::Meth;
use crate::run::Tol;
use ivp::methods::{IntegrationResult, BDF, DOP853, DOPRI5, RADAU, RK23, RK4};
use ivp::prelude::*;
use ivp::solout::SolOut;

#[derive(Clone, Debug, Default)]
pub struct LowOpts {
    pub first_step: Option<f64>,
    pub max_step: Option<f64>,
    pub max_steps: Option<usize>,
    /// Radau/BDF only
    pub newton_tol: Option<f64>,
    pub newton_maxiter: Option<usize>,
    pub identity_mass: bool,
    pub dense: Option<bool>,
    /// DOPRI5/DOP853 only: the stiffness test runs on every `stiff_test`-th accepted step
    pub stiff_test: Option<usize>,
}

/// `h_rk4`: fixed step for RK4 (signed)
pub fn solve_low<F: IVP, S: SolOut>(
    m: Meth,
    f: &F,
    x0: f64,
    xend: f64,
    y0: &[f64],
    rtol: &Tol,
    atol: &Tol,
    o: &LowOpts,
    solout: &mut S,
) -> Result<IntegrationResult, String> {
    solve_low_opt(m, f, x0, xend, y0, rtol, atol, o, Some(solout))
}

/// the same with the callback optional (`None`: the solver runs without a SolOut)
pub fn solve_low_opt<F: IVP, S: SolOut>(
    m: Meth,
    f: &F,
    x0: f64,
    xend: f64,
    y0: &[f64],
    rtol: &Tol,
    atol: &Tol,
    o: &LowOpts,
    solout: Option<&mut S>,
) -> Result<IntegrationResult, String> {
    let r = match m {
        Meth::RK4 => {
            let h = o.first_step.unwrap_or((xend - x0) / 100.0);
            RK4::builder().maybe_max_steps(o.max_steps).maybe_dense_output(o.dense).build().solve(f, x0, y0, xend, h, solout)
        }
        Meth::RK23 => RK23::builder()
            .maybe_first_step(o.first_step)
            .maybe_max_step(o.max_step)
            .maybe_max_steps(o.max_steps)
            .maybe_dense_output(o.dense)
            .build()
            .solve(f, x0, y0, xend, rtol.to_ivp(), atol.to_ivp(), solout),
        Meth::DOPRI5 => DOPRI5::builder()
            .maybe_stiff_test(o.stiff_test)
            .maybe_first_step(o.first_step)
            .maybe_max_step(o.max_step)
            .maybe_max_steps(o.max_steps)
            .maybe_dense_output(o.dense)
            .build()
            .solve(f, x0, y0, xend, rtol.to_ivp(), atol.to_ivp(), solout),
        Meth::DOP853 => DOP853::builder()
            .maybe_stiff_test(o.stiff_test)
            .maybe_first_step(o.first_step)
            .maybe_max_step(o.max_step)
            .maybe_max_steps(o.max_steps)
            .maybe_dense_output(o.dense)
            .build()
            .solve(f, x0, y0, xend, rtol.to_ivp(), atol.to_ivp(), solout),
        Meth::RADAU => {
            let b = RADAU::builder()
                .maybe_first_step(o.first_step)
                .maybe_max_step(o.max_step)
                .maybe_max_steps(o.max_steps)
                .maybe_newton_tol(o.newton_tol)
                .maybe_newton_maxiter(o.newton_maxiter)
                .maybe_dense_output(o.dense);
            if o.identity_mass {
                b.mass_storage(MatrixStorage::Identity).build().solve(f, x0, y0, xend, rtol.to_ivp(), atol.to_ivp(), solout)
            } else {
                b.build().solve(f, x0, y0, xend, rtol.to_ivp(), atol.to_ivp(), solout)
            }
        }
        Meth::BDF => BDF::builder()
            .maybe_first_step(o.first_step)
            .maybe_max_step(o.max_step)
            .maybe_max_steps(o.max_steps)
            .maybe_newton_tol(o.newton_tol)
            .maybe_newton_maxiter(o.newton_maxiter)
            .build()
            .solve(f, x0, y0, xend, rtol.to_ivp(), atol.to_ivp(), solout),
    };
    r.map_err(|e| format!("{}", e))
}
