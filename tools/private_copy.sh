#!/usr/bin/env bash
# tools/private_copy.sh <root> : private copy of /repo (git worktree at HEAD) and /verif under <root>, with the
# harness pointed at the copy.  Remove with: git -C /repo worktree remove --force <root>/repo; rm -rf <root>
set -e
root="$1"; rm -rf "$root"; mkdir -p "$root"
git -C /repo worktree prune
git -C /repo worktree add -q --detach "$root/repo" HEAD
rsync -a --exclude harness/fuzz/target --exclude py/build --exclude .git /verif/ "$root/verif/"
sed -i "s#path = \"/repo\"#path = \"$root/repo\"#" "$root/verif/harness/Cargo.toml"
[ -f "$root/verif/harness/fuzz/Cargo.toml" ] && sed -i "s#path = \"/repo\"#path = \"$root/repo\"#" "$root/verif/harness/fuzz/Cargo.toml" || true
echo "$root ready"
